"""Dispatcher: ./check <ID> [--tier quick|thorough] | ./check replay <file>"""
import importlib
import json
import os
import sys
import traceback

HERE = os.path.dirname(os.path.dirname(os.path.abspath(__file__)))
sys.path.insert(0, HERE)


def main(argv):
    if not argv:
        print("usage: check <ID> [--tier quick|thorough] | check replay <file>", file=sys.stderr)
        return 2
    tier = os.environ.get("VERIF_TIER", "quick")
    if "--tier" in argv:
        i = argv.index("--tier")
        tier = argv[i + 1]
        del argv[i:i + 2]
    if argv[0] == "replay":
        with open(argv[1]) as f:
            payload = json.load(f)
        mod = importlib.import_module("props." + payload["property"])
        ok, text = mod.main(payload.get("tier", tier), replay_payload=payload)
        print(text)
        if ok:
            print("VIOLATION property=%s replay=%s" % (payload["property"], os.path.abspath(argv[1])))
            return 1
        print("replay did not reproduce")
        return 0
    prop = argv[0]
    import time
    # an overall wall-clock budget for the exploration (a change under test can blow the path count up): whatever
    # was found until then is still replayed and reported, the run itself counts as not exhausted
    os.environ.setdefault("HSVERIF_DEADLINE", str(time.time() + (4 * 3600 if tier == "thorough" else 1200)))
    try:
        mod = importlib.import_module("props." + prop)
        return mod.main(tier)
    except SystemExit:
        raise
    except BaseException:
        traceback.print_exc()
        print("ENGINE-ERROR property=%s harness crashed (inconclusive)" % prop, file=sys.stderr)
        return 2


if __name__ == "__main__":
    sys.exit(main(sys.argv[1:]))
