"""Reporting discipline: evidence files, known findings, replay files, exit codes.

exit 0  everything explored held (KNOWN-FINDING lines for listed findings)
exit 1  + "VIOLATION property=<id> replay=<path>" : a failing class that is not listed and that the replay reproduced
exit 2  engine error: solver unknown, non-deterministic replay, counterexample that does not reproduce, vacuous
        harness, search not exhausted -- never reported as success, never as a violation
"""
import collections
import re
import hashlib
import json
import os
import sys
import time
import traceback

HERE = os.path.dirname(os.path.dirname(os.path.abspath(__file__)))
EVID = os.path.join(HERE, "evidence")
REPLAYS = os.path.join(HERE, "replays")
KNOWN = os.path.join(HERE, "known_findings.json")


def guarded_replay(fn, payload):
    """Run a replayer in a forked child under a time limit: a counterexample may be a call that never returns, and
    a replay must not take the check down with it.  Returns (reproduced, text)."""
    import select
    import shutil
    import signal
    import tempfile
    limit = 90 if payload.get("expect_hang") else 900
    tmp = tempfile.mkdtemp(prefix="hsverif.replay.")
    r, w_ = os.pipe()
    sys.stdout.flush()
    sys.stderr.flush()
    pid = os.fork()
    if pid == 0:
        os.close(r)
        os.setsid()          # helpers the replay starts (e.g. multiprocessing managers) are cleaned up with it
        os.environ["TMPDIR"] = tmp
        try:
            out = fn(payload)
            out = [bool(out[0]), str(out[1])]
        except BaseException:    # noqa
            out = [False, "replayer crashed:\n" + traceback.format_exc()]
        try:
            data = json.dumps(out).encode()
            while data:
                n = os.write(w_, data)
                data = data[n:]
        finally:
            os._exit(0)
    os.close(w_)
    buf = b""
    end = time.time() + limit
    timed_out = False
    exited = False
    while True:
        left = end - time.time()
        if left <= 0:
            timed_out = True
            break
        rd, _, _ = select.select([r], [], [], min(left, 1))
        if rd:
            chunk = os.read(r, 65536)
            if not chunk:
                break
            buf += chunk
            continue
        if exited:
            break            # the child is gone and nothing more is readable (a helper may still hold the pipe open)
        done, _st = os.waitpid(pid, os.WNOHANG)
        if done == pid:
            exited = True
    os.close(r)
    try:
        os.killpg(pid, signal.SIGKILL)      # the child (if it still runs) and whatever it started
    except OSError:
        pass
    if not exited:
        try:
            os.waitpid(pid, 0)
        except OSError:
            pass
    shutil.rmtree(tmp, ignore_errors=True)
    if timed_out:
        return bool(payload.get("expect_hang")), ("the replay on the real code did not return within %d s and was "
                                                  "killed%s" % (limit, " (the counterexample is a call that does not "
                                                                "return)" if payload.get("expect_hang") else ""))
    try:
        out = json.loads(buf.decode())
        return bool(out[0]), out[1]
    except Exception:   # noqa
        return False, "replayer died without a result"


def load_known():
    try:
        with open(KNOWN) as f:
            return json.load(f).get("findings", [])
    except FileNotFoundError:
        return []


def jsonable(x):
    if isinstance(x, bytes):
        return x.decode("utf8", "backslashreplace")
    if isinstance(x, (list, tuple, set, frozenset)):
        return [jsonable(v) for v in x]
    if isinstance(x, dict):
        return {str(k): jsonable(v) for k, v in x.items()}
    if isinstance(x, (str, int, float, bool)) or x is None:
        return x
    return str(x)


class Run:
    def __init__(self, prop, tier=None, seed=None, technique=""):
        self.prop = prop
        self.tier = tier or os.environ.get("VERIF_TIER", "quick")
        if self.tier not in ("quick", "thorough"):
            self.tier = "quick"
        self.seed = int(seed if seed is not None else os.environ.get("VERIF_SEED", "0") or 0)
        self.t0 = time.time()
        self.technique = technique
        self.parts = []                 # per-harness evidence dicts
        self.failures = collections.OrderedDict()   # signature -> dict(count, first payload, detail)
        self.errors = []                # engine errors
        self.samples = []
        self.reach = collections.Counter()
        self.evaluations = 0
        self.distinct = set()
        self.obligations = 0
        self.discharged = 0
        self.solver = dict(paths=0, solver_queries=0, validity_queries=0, solver_s=0.0)
        self.exhaustive = True
        self.functions = []
        self.bounds = {}
        self.assumptions = []
        self.outside = []
        self.replayer = None            # callable(payload) -> (reproduced: bool, text)
        self.must_reach = {}            # label -> predicate name reached?
        self.explanation = ""
        self.witnesses = []

    # ---- accumulation
    def add_stats(self, d):
        for k in ("paths", "solver_queries", "validity_queries"):
            self.solver[k] += int(d.get(k, 0))
        self.solver["solver_s"] += float(d.get("solver_s", 0.0))
        if not d.get("exhausted", True):
            self.exhaustive = False

    def case(self, key, sample=None):
        """count one explored case; key identifies its distinct non-trivial class"""
        self.evaluations += 1
        if key is not None:
            if key not in self.distinct and sample is not None and len(self.samples) < 12:
                self.samples.append(jsonable(sample))
            self.distinct.add(key)

    def oblige(self, ok=True, n=1):
        self.obligations += n
        if ok:
            self.discharged += n

    def fail(self, signature, detail, payload):
        f = self.failures.get(signature)
        if f is None:
            self.failures[signature] = dict(count=1, detail=detail, payload=payload)
        else:
            f["count"] += 1

    def error(self, text):
        self.errors.append(text)

    def need(self, label, reached):
        self.must_reach[label] = bool(reached) or self.must_reach.get(label, False)

    # ---- finish
    def finish(self):
        known = load_known()
        rc = 0
        lines = []
        nviol = 0
        nknown = 0
        nskipped = 0
        os.makedirs(EVID, exist_ok=True)
        unreached = [k for k, v in self.must_reach.items() if not v]
        if unreached:
            self.error("vacuity: must-reach targets not reached: %s" % ", ".join(unreached))
        if not self.exhaustive:
            self.error("search not exhausted within its budget (inconclusive, not success)")
        for sig, f in self.failures.items():
            listed = [k for k in known if (k.get("property") == self.prop or self.prop in (k.get("also") or []))
                      and k.get("status") == "known"
                      and (k.get("signature") == sig or
                           (k.get("signature_regex") and re.fullmatch(k["signature_regex"], sig)))]
            if listed:
                nknown += 1
                lines.append("KNOWN-FINDING: property=%s [%s] %s (%d failing paths)" % (
                    self.prop, listed[0].get("id", "?"), sig, f["count"]))
                continue
            if nviol >= 25:
                nskipped += 1
                continue
            payload = dict(f["payload"])
            payload.setdefault("property", self.prop)
            payload["signature"] = sig
            payload["detail"] = jsonable(f["detail"])
            reproduced, text = True, "no replayer registered"
            if self.replayer is not None:
                reproduced, text = guarded_replay(self.replayer, payload)
            payload["replay_result"] = text
            if reproduced:
                os.makedirs(REPLAYS, exist_ok=True)
                h = hashlib.sha1(json.dumps(jsonable(payload), sort_keys=True).encode()).hexdigest()[:10]
                path = os.path.join(REPLAYS, "%s-%s.json" % (self.prop, h))
                with open(path, "w") as fh:
                    json.dump(jsonable(payload), fh, indent=1, sort_keys=True)
                nviol += 1
                lines.append("VIOLATION property=%s replay=%s" % (self.prop, path))
                lines.append("  class: %s (%d failing paths)" % (sig, f["count"]))
                lines.append("  detail: %s" % json.dumps(jsonable(f["detail"]))[:600])
                rc = 1
            else:
                self.error("counterexample did not reproduce on the real code (engine/model error, not a finding): "
                           "%s :: %s" % (sig, text[:400]))
        if nskipped:
            lines.append("  (+%d further failing classes not replayed: 25 reproduced violations already reported)" % nskipped)
        if self.errors and rc == 0:
            rc = 2
        wall = time.time() - self.t0
        cov = dict(
            explanation=self.explanation or self.technique,
            evaluations=max(self.evaluations, 0),
            distinct_nontrivial=len(self.distinct),
            rule="one evaluation = one feasible path of the real code under the symbolic environment (or one "
                 "CrossHair path); distinct = distinct (call, result class, pre-state relation / event site) classes",
            samples=self.samples or ["(no case explored)"],
            exhaustive=bool(self.exhaustive and not self.errors),
            obligations=self.obligations, discharged=self.discharged,
            checker_cmd="./check %s --tier %s" % (self.prop, self.tier),
            trusted_base=["z3 5.1.0", "CrossHair 0.0.110 (E1 kernels)", "symfs environment model (validated against "
                          "the real OS by the trace-equality battery and by replay)", "python hashlib / yaml / argparse"],
            functions_executed=self.functions, bounds=self.bounds, outside_the_claim=self.outside,
            solver=dict(self.solver, solver_s=round(self.solver["solver_s"], 3)),
            result_classes_reached=dict(self.reach), must_reach=self.must_reach, witnesses=self.witnesses,
            known_findings_seen=nknown, engine_errors=self.errors[:20], parts=self.parts,
            failing_classes=[dict(signature=s, paths=f["count"]) for s, f in self.failures.items()],
        )
        ev = dict(property_id=self.prop, tier=self.tier, seed=self.seed, level="other", coverage=jsonable(cov),
                  assumptions=self.assumptions, wall_s=round(wall, 2), violations=nviol)
        with open(os.path.join(EVID, "%s.json" % self.prop), "w") as fh:
            json.dump(ev, fh, indent=1)
        for ln in lines:
            print(ln)
        for e in self.errors:
            print("ENGINE-ERROR property=%s %s" % (self.prop, e), file=sys.stderr)
        print("%s %s tier=%s paths=%d queries=%d solver_s=%.1f obligations=%d/%d classes=%d wall=%.1fs rc=%d" % (
            self.prop, "ok" if rc == 0 else ("VIOLATED" if rc == 1 else "INCONCLUSIVE"), self.tier,
            self.solver["paths"], self.solver["solver_queries"], self.solver["solver_s"], self.discharged,
            self.obligations, len(self.distinct), wall, rc))
        return rc
