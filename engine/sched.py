"""Cooperative scheduler: the real methods run in real Python threads, but only the thread holding the baton
runs; the baton returns to the explorer at every file-system operation, existence probe and lock operation.  At step n
the explorer creates the z3 variable sched_n, constrains it to the enabled threads (and to the running thread once
the preemption budget is spent) and decides it; notify() wakes one *solver-chosen* waiter (wake_k).  threading /
multiprocessing primitives of the loaded module are replaced by the scheduler-aware ones below (mutual exclusion by
object identity, FIFO-free notify, Manager().list() is a list)."""
import threading as _th
import types
import z3


class Killed(BaseException):
    pass


CUR = [None]       # the active scheduler (None: primitives behave trivially, single-threaded set-up code)
MAX_STEPS = 4000
STALL_S = 240


class Sched:
    def __init__(self, ps, bound, pinned=None):
        self.ps = ps
        self.bound = bound
        self.thr = []
        self.cur = None
        self.main = _th.Semaphore(0)
        self.preempt = 0
        self.step = 0
        self.log = []
        self.tls = _th.local()
        self.pinned = pinned          # optional list of decisions to replay without the solver
        self.points = 0

    # ---- worker side
    def me(self):
        return getattr(self.tls, "t", None)

    def point(self, kind, what=None):
        t = self.me()
        if t is None:
            return
        t.at = (kind, what)
        self.points += 1
        self.main.release()
        t.sem.acquire()
        if t.kill:
            raise Killed()

    def block_until(self, pred, kind, what=None):
        t = self.me()
        while True:
            t.waitpred = pred
            try:
                self.point(kind, what)
            finally:
                t.waitpred = None
            if pred():
                return

    # ---- explorer side
    def spawn(self, fn, name):
        t = types.SimpleNamespace(name=name, sem=_th.Semaphore(0), done=False, res=None, at=("start", None),
                                  waitpred=None, kill=False, idx=len(self.thr))

        def body():
            self.tls.t = t
            t.sem.acquire()
            try:
                if not t.kill:
                    t.res = ("ok", fn())
            except Killed:
                t.res = ("killed", None)
            except Exception as e:   # noqa
                t.res = ("exc", type(e).__name__, str(e)[:160])
            t.done = True
            self.main.release()
        t.thread = _th.Thread(target=body, daemon=True)
        t.thread.start()
        self.thr.append(t)
        return t

    def enabled(self):
        return [t for t in self.thr if not t.done and (t.waitpred is None or t.waitpred())]

    def _kill_all(self):
        for t in self.thr:
            n = 0
            while not t.done and n < 10000:
                t.kill = True
                t.sem.release()
                if not self.main.acquire(timeout=STALL_S):
                    break
                n += 1
        for t in self.thr:
            t.thread.join(timeout=5)

    def choose_int(self, name, cands):
        """solver-decided choice among candidate ints (first candidate first)"""
        if self.pinned is not None:
            v = self.pinned[len(self.log)] if len(self.log) < len(self.pinned) else cands[0]
            if v not in cands:
                raise RuntimeError("recorded schedule diverged at choice %d: %r not in %r" % (len(self.log), v, cands))
            self.log.append(v)
            return v
        if len(cands) == 1:
            v = cands[0]
            self.log.append(v)
            return v
        var = z3.Int("%s_%d" % (name, self.step))
        self.step += 1
        self.ps.constrain(z3.Or([var == c for c in cands]))
        for c in cands:
            if self.ps.decide(var == c):
                self.log.append(c)
                return c
        raise RuntimeError("no feasible scheduling choice")

    def run(self):
        try:
            return self._run()
        finally:
            self._kill_all()

    def _run(self):
        nsteps = 0
        while True:
            alive = [t for t in self.thr if not t.done]
            if not alive:
                return "done"
            en = self.enabled()
            if not en:
                return "deadlock"
            nsteps += 1
            if nsteps > MAX_STEPS:
                return "step-budget-exceeded"
            cands = en
            if self.cur is not None and self.cur in en:
                cands = [self.cur] + ([t for t in en if t is not self.cur] if self.preempt < self.bound else [])
            idx = self.choose_int("sched", [t.idx for t in cands])
            pick = self.thr[idx]
            if self.cur is not None and self.cur in en and pick is not self.cur:
                self.preempt += 1
            self.cur = pick
            pick.sem.release()
            if not self.main.acquire(timeout=STALL_S):
                # never reported as a verdict: the harness lost track of the running thread (exit 2)
                raise RuntimeError("scheduler stalled: thread %s neither finished nor reached a scheduling point within "
                                   "%d s (last at %r)" % (pick.name, STALL_S, pick.at))


# ------------------------------------------------------------------------------------------- primitives
class Lock:
    def __init__(self, *a, **k):
        self.owner = None

    def acquire(self, blocking=True, timeout=-1):
        s = CUR[0]
        if s is None or s.me() is None:
            self.owner = "setup"
            return True
        s.block_until(lambda: self.owner is None, "lock.acquire", id(self))
        self.owner = s.me()
        return True

    def release(self):
        self.owner = None
        # a scheduling point: what a thread does right after leaving a critical section is not part of it
        s = CUR[0]
        if s is not None and s.me() is not None and not s.me().kill:
            s.point("lock.release", id(self))

    def __enter__(self):
        self.acquire()
        return self

    def __exit__(self, *a):
        self.release()

    def locked(self):
        return self.owner is not None


class Condition:
    def __init__(self, lock=None):
        self.lock = lock if lock is not None else Lock()
        self.waiters = []

    def __enter__(self):
        self.lock.acquire()
        return self

    def __exit__(self, *a):
        self.lock.release()

    def acquire(self, *a, **k):
        return self.lock.acquire(*a, **k)

    def release(self):
        self.lock.release()

    def wait(self, timeout=None):
        s = CUR[0]
        if s is None or s.me() is None:
            raise RuntimeError("wait() outside a scheduled thread: identifier left locked by set-up code")
        tok = [False]
        self.waiters.append(tok)
        self.lock.owner = None
        if timeout is None:
            s.block_until(lambda: tok[0], "cond.wait", id(self))
        else:
            # a timed wait stays enabled: when the scheduler lets the thread move before it was notified, the
            # time-out has elapsed (any amount of time may pass between two steps of another thread)
            s.point("cond.wait(timeout)", id(self))
            if not tok[0] and tok in self.waiters:
                self.waiters.remove(tok)
        s.block_until(lambda: self.lock.owner is None, "lock.reacquire", id(self.lock))
        self.lock.owner = s.me()
        return tok[0]

    def notify(self, n=1):
        s = CUR[0]
        if self.waiters:
            if s is not None:
                k = s.choose_int("wake", list(range(len(self.waiters))))
            else:
                k = 0
            self.waiters.pop(k)[0] = True

    def notify_all(self):
        for w in self.waiters:
            w[0] = True
        self.waiters = []


class ProcLocalLock(Lock):
    """threading.Lock as seen by forked processes: every process has its own copy, so it excludes nobody else.
    (In the multiprocessing-mode scenarios each scheduled thread stands for one forked process.)"""

    def __init__(self, *a, **k):
        self.owners = {}

    def acquire(self, blocking=True, timeout=-1):
        s = CUR[0]
        me = s.me() if s is not None else None
        if me is None:
            return True
        s.block_until(lambda: self.owners.get(id(me)) is None, "lock.acquire(process-local)", id(self))
        self.owners[id(me)] = True
        return True

    def release(self):
        s = CUR[0]
        me = s.me() if s is not None else None
        self.owners.pop(id(me), None)

    @property
    def owner(self):
        s = CUR[0]
        me = s.me() if s is not None else None
        return self.owners.get(id(me))

    @owner.setter
    def owner(self, v):
        s = CUR[0]
        me = s.me() if s is not None else None
        if v is None:
            self.owners.pop(id(me), None)
        else:
            self.owners[id(me)] = v


class ProcLocalCondition(Condition):
    """threading.Condition as seen by forked processes: notify() only reaches waiters of the same process."""

    def __init__(self, lock=None):
        self.lock = lock if lock is not None else ProcLocalLock()
        self.waiters = []

    def wait(self, timeout=None):
        s = CUR[0]
        if s is None or s.me() is None:
            raise RuntimeError("wait() outside a scheduled thread: identifier left locked by set-up code")
        tok = [False, id(s.me())]
        self.waiters.append(tok)
        self.lock.owner = None
        s.block_until(lambda: tok[0], "cond.wait(process-local)", id(self))
        s.block_until(lambda: self.lock.owner is None, "lock.reacquire", id(self.lock))
        self.lock.owner = s.me()
        return True

    def notify(self, n=1):
        s = CUR[0]
        me = id(s.me()) if s is not None and s.me() is not None else None
        mine = [w for w in self.waiters if w[1] == me]
        if mine:
            self.waiters.remove(mine[0])
            mine[0][0] = True

    def notify_all(self):
        s = CUR[0]
        me = id(s.me()) if s is not None and s.me() is not None else None
        for w in [w for w in self.waiters if w[1] == me]:
            w[0] = True
            self.waiters.remove(w)


def reset_primitives(instance):
    """fresh lock / condition state for a new execution (a killed, deadlocked execution leaves waiters behind)"""
    for v in list(instance.__dict__.values()):
        if isinstance(v, ProcLocalLock):
            v.owners = {}
        elif isinstance(v, Lock):
            v.owner = None
        if isinstance(v, Condition):
            v.waiters = []
            if isinstance(v.lock, ProcLocalLock):
                v.lock.owners = {}
            else:
                v.lock.owner = None


class _Manager:
    def list(self, *a):
        return list(*a)

    def dict(self, *a, **k):
        return dict(*a, **k)


fthreading = types.SimpleNamespace(Lock=Lock, Condition=Condition, RLock=Lock, Thread=_th.Thread,
                                   current_thread=_th.current_thread, local=_th.local)
# the threading module as it behaves across forked processes (used for the loaded module in multiprocessing mode)
fthreading_proclocal = types.SimpleNamespace(Lock=ProcLocalLock, Condition=ProcLocalCondition, RLock=ProcLocalLock,
                                             Thread=_th.Thread, current_thread=_th.current_thread, local=_th.local)
fmultiprocessing = types.SimpleNamespace(Lock=Lock, Condition=Condition, RLock=Lock, Manager=lambda: _Manager(),
                                         cpu_count=lambda: 16)
