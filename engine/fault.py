"""I/O faults as symbolic variables: fault_at (operation index), sticky (fails again for that destination until the
call returns), errno selector.  One fault per call."""
import errno as _errno
import os
import z3

from . import symfs, step
from .crash import addr_kind, frame_after_crash
from .pathsym import PathSym, par_explore, member_of
from .universe import World

FAULTV, STICKY, ERRV = z3.Int("fault_at"), z3.Bool("sticky"), z3.Int("errno_idx")
ERRNOS = [_errno.EIO, _errno.ENOSPC, _errno.EACCES]


from .seqsync import WouldBlock, SeqLock, SeqCondition, SEQ_THREADING, SEQ_MULTIPROCESSING   # noqa: E402,F401


def run_fault(ps, w, menu, nerr=1, pinned=None, obstruct=False):
    F = w.build(ps)
    s = w.store()
    n = ps.choose(step.CALLV, 0, len(menu))
    call = menu[n]
    if call.needs is not None:
        ps.assume(call.needs(w))
    pre = w.pre()
    i = getattr(call, "i", None)
    st = dict(hit=None, stick=None, err=None, nfail=0)

    def inj(idx, kind, path):
        if st["stick"] is not None and path == st["stick"]:
            st["nfail"] += 1
            raise OSError(st["err"], os.strerror(st["err"]) + " (injected, persistent)", path)
        if st["hit"] is None:
            if pinned is not None:
                fire = idx == pinned["fault_at"]
            else:
                fire = ps.decide(FAULTV == idx)
            if fire:
                st["hit"] = (idx, kind, path)
                if obstruct and kind == "mkdir" and (
                        pinned.get("errno_idx") == nerr if pinned is not None else ps.decide(ERRV == nerr)):
                    # not an I/O error but an unusual on-disk state: something that is not a directory sits where
                    # the call wants one (the mkdir then fails with EEXIST and the path never becomes a directory)
                    if not (F.b.isfile(path) or F.b.isdir(path)):
                        F.b.create(path, b"")
                    st["err"], st["obstructed"] = _errno.EEXIST, True
                    return
                if pinned is not None:
                    st["err"] = ERRNOS[pinned.get("errno_idx", 0)]
                    sticky = bool(pinned.get("sticky"))
                else:
                    st["err"] = ERRNOS[ps.choose(ERRV, 0, nerr)]
                    sticky = ps.decide(STICKY)
                if sticky:
                    st["stick"] = path
                st["nfail"] += 1
                raise OSError(st["err"], os.strerror(st["err"]) + " (injected)", path)
    F.injector = inj
    blocked = False
    diverged = None
    try:
        val = call.run(w, s)
        res = "ok"
    except WouldBlock as e:
        res, val, blocked = "BLOCKED", e, True
    except symfs.Diverged as e:
        res, val, diverged = "DOES-NOT-RETURN", Exception(str(e)), str(e)
        F.npoints = 0
    except Exception as e:   # noqa
        res, val = w.classify(e), e
    F.injector = None
    if st["hit"] is None:
        if pinned is None:
            ps.constrain(FAULTV >= F.nops)
        return dict(kind="nofault", call=call.label, roles=call.roles, res=res, bad=[], nob=0)
    sticky = st["stick"] is not None
    bad = []
    nob = 0
    observations = []
    need_retry = False
    post = w.post()
    cases, exp = call.model(w, pre)
    if blocked:
        bad.append(("C08:call-blocked-on-its-own-lock", str(val)[:80]))
    if diverged:
        bad.append(("C08:call-does-not-return", diverged[:100]))
    if st.get("obstructed"):
        # only termination and the lock lists are judged for this environment (it is not an I/O error: C13's clauses
        # about failed calls do not speak about it)
        for p in w.instance_problems(s):
            if p[0] == "identifier-left-locked":
                bad.append(("C08:identifier-left-locked", p[1:]))
        rec = dict(kind="fault", call=call.label, roles=call.roles, res=res, site=("mkdir-obstructed", addr_kind(st["hit"][2])),
                   sticky=True, at=st["hit"][0], err="EEXIST(not a directory)", bad=bad, nob=1, n=n, observations=[],
                   exc=(type(val).__name__ + ": " + str(val)[:120]) if isinstance(val, Exception) else None,
                   expect_hang=bool(diverged))
        if bad:
            rec["vals"] = ps.model_values(w.statevars + [step.CALLV, step.OFFV, FAULTV, STICKY, ERRV])
            rec["relation"] = call.relation(w, rec["vals"])
        return rec
    if res == "ok":
        # reported success although an operation failed on the way: what the call reports is still true
        for p in call.check_value(w, ps, val, res):
            bad.append(("C02:reported-value-wrong-after-an-io-error-on-the-way", p))
        # reported success: the whole effect must have been achieved
        oke, _ = ps.valid(w.state_eq(post, exp))
        nob += 1
        ok_cls = any("ok" in classes and ps.valid(cond)[0] for cond, classes in cases)
        if not oke:
            bad.append(("C13:reported-success-but-effect-not-achieved", ""))
        elif not ok_cls:
            bad.append(("C13:reported-success-where-the-fault-free-call-is-rejected", ""))
    else:
        if isinstance(call, (step.StoreObj, step.Tag)):
            # "the pid is unbound and can be stored again at once (or its earlier binding is intact)": a pid that was
            # unbound stays unbound (and the retry below must succeed), a pid that was bound keeps its binding
            oku, _ = ps.valid(post["bind"][i] == pre["bind"][i])
            nob += 1
            if not oku:
                bad.append(("C13:failed-call-left-pid-binding-changed", ""))
            # ... and not half-bound either: its membership in every cid reference list is what it was
            okh, _ = ps.valid(z3.And([post["mem"][j][i] == pre["mem"][j][i] for j in range(w.NC)]))
            nob += 1
            if oku and not okh:
                bad.append(("C13:failed-call-left-pid-half-bound", "listed in a cid reference list without a pid reference"))
        if isinstance(call, step.StoreMeta):
            c = w.cell(call.f)
            okm, _ = ps.valid(post["meta"][i][c] == pre["meta"][i][c])
            nob += 1
            if not okm:
                bad.append(("C13:failed-store_metadata-lost-previous-version", ""))
    if i is not None:
        okf, _ = ps.valid(frame_after_crash(w, pre, post, i))
        nob += 1
        if not okf:
            bad.append(("C13:other-pid-data-touched", ""))
    for p in post["problems"]:
        if p[0] in ("object-bytes-changed", "pid-ref-garbled", "metadata-garbled"):
            bad.append(("C13:" + p[0], p[1:]))
    for p in w.instance_problems(s):
        if p[0] == "identifier-left-locked":
            bad.append(("C08:identifier-left-locked", p[1:]))
    # retry at once (fault removed): a failed store/tag of an unbound pid must now succeed
    if res not in ("ok", "BLOCKED") and isinstance(call, (step.StoreObj, step.Tag)) and not getattr(call, "invalid", False):
        unbound, _ = ps.valid(pre["bind"][i] < 0)
        if unbound or need_retry:
            try:
                call.run(w, s)
            except WouldBlock as e:
                bad.append(("C08:retry-blocked", str(e)[:80]))
            except Exception as e:   # noqa
                bad.append(("C13:retry-after-failed-call-refused", type(e).__name__))
    # follow-up calls on the same identifiers must complete without blocking.  Whether a call blocks depends only on
    # the instance's lock state, so they run on a concrete empty store (no further symbolic branching).
    if i is not None:
        pid = w.pids[i]
        F2 = symfs.FS(w.F0.b.clone_concrete(), blksize=w.blksize) if w.mode == "model" else F
        F2.env = dict(w.F0.env)
        w.shim.fs = F2
        cidx = w.cids[getattr(call, "j", getattr(call, "k", 0)) if getattr(call, "j", getattr(call, "k", 0)) < w.NC else 0]
        for name, fn in (("delete_object", lambda: s.delete_object(pid)),
                         ("store_metadata", lambda: s.store_metadata(pid, "/src/d0")),
                         ("delete_metadata", lambda: s.delete_metadata(pid)),
                         ("tag_object", lambda: s.tag_object(pid, cidx)),
                         ("store_object", lambda: s.store_object(pid, "/src/c0"))):
            try:
                fn()
            except WouldBlock as e:
                bad.append(("C08:follow-up-%s-blocked" % name, str(e)[:80]))
            except Exception:   # noqa
                pass
        for p in w.instance_problems(s):
            if p[0] == "identifier-left-locked":
                bad.append(("C08:identifier-left-locked-after-follow-up", p[1:]))
        w.shim.fs = F
    site = (st["hit"][1], addr_kind(st["hit"][2]))
    rec = dict(kind="fault", call=call.label, roles=call.roles, res=res, site=site, sticky=sticky, at=st["hit"][0],
               err=_errno.errorcode.get(st["err"]), bad=bad, nob=nob, n=n, observations=observations,
               exc=(type(val).__name__ + ": " + str(val)[:120]) if isinstance(val, Exception) else None,
               expect_hang=bool(diverged))
    if bad:
        rec["vals"] = ps.model_values(w.statevars + [step.CALLV, step.OFFV, FAULTV, STICKY, ERRV])
        rec["relation"] = call.relation(w, rec["vals"])
    return rec


def explore_faults(w_args, menu_fn, nerr=1, procs=None, obstruct=False):
    a = dict(w_args, threading_mod=SEQ_THREADING, multiprocessing_mod=SEQ_MULTIPROCESSING)

    def worker(idx):
        w = World(**a)
        menu = menu_fn(w)
        ps = PathSym(w.inv() + [member_of(step.CALLV, idx), FAULTV >= 0, ERRV >= 0, ERRV < nerr + (1 if obstruct else 0)])
        recs = ps.explore(lambda p: run_fault(p, w, menu, nerr, obstruct=obstruct))
        w.cleanup()
        return recs, ps.st.as_dict(), len(menu)
    w0 = World(**a)
    n = len(menu_fn(w0))
    k = procs or min(16, os.cpu_count() or 4)
    return par_explore(worker, [list(range(r, n, k)) for r in range(k) if r < n], procs)


def replay_fault(w_args, menu_fn, vals, want_prefixes, obstruct=False, nerr=1):
    a = dict(w_args, mode="passthrough", threading_mod=SEQ_THREADING, multiprocessing_mod=SEQ_MULTIPROCESSING)
    w = World(**a)
    try:
        menu = menu_fn(w)
        pins = []
        for v in w.statevars + [step.CALLV, step.OFFV]:
            if str(v) in vals:
                x = vals[str(v)]
                pins.append(v == (z3.BoolVal(x) if isinstance(x, bool) else z3.IntVal(x)))
        ps = PathSym(w.inv() + pins)
        recs = ps.explore(lambda p: run_fault(p, w, menu, nerr, pinned=vals, obstruct=obstruct))
        r = recs[0]
        hit = [b for b in r["bad"] if any(b[0].startswith(pfx) for pfx in want_prefixes)]
        return bool(hit), ("passthrough replay on the real file system (history %s; %s %s injected at operation %d%s): "
                           "%s -> %s %s; failing: %s" % (
                               getattr(w, "history", []), r.get("err"), r.get("site"), vals["fault_at"],
                               ", persistent for that destination" if vals.get("sticky") else ", once",
                               r["call"], r["res"], r.get("exc"), r["bad"]))
    finally:
        w.cleanup()
