"""One inductive step: from an arbitrary state satisfying Inv run one arbitrary public call through the real code
and discharge, with the solver, the post-state obligations (Inv closure, reference-model equality, frame, C04...)."""
import hashlib
import io
import z3

from . import symfs
from .pathsym import PathSym, Infeasible, par_explore, member_of
from .universe import World, FIVE

OK = frozenset(["ok"])
EXISTS = frozenset(["exists"])
NOPID = frozenset(["nopid"])
NOOBJ = frozenset(["noobj"])
MISMATCH = frozenset(["mismatch"])
VALERR = frozenset(["ValueError"])
TYPEERR = frozenset(["TypeError"])
UNSUP = frozenset(["unsupported"])


class Call:
    label = "call"
    roles = ""
    readonly = False
    rejected = False
    needs = None            # optional: callable(world) -> z3 precondition on the pre-state

    def run(self, w, s):
        raise NotImplementedError

    def model(self, w, pre):
        raise NotImplementedError

    def check_value(self, w, ps, val, res):
        return []

    def relation(self, w, vals):
        return ""

    def after(self, w, s, res):
        return []

    def finally_(self, w, s, res):
        """runs after the post-state was abstracted (may touch the store)"""
        return []

    def __repr__(self):
        return self.label


def _rel_pid(w, vals, i):
    b = vals.get("bind_%d" % i, -1)
    if b < 0:
        return "pid unbound"
    shared = any(vals.get("bind_%d" % q, -1) == b for q in range(w.NP) if q != i)
    ob = bool(vals.get("obj_%d" % b)) if b != w.fake else False
    return "pid bound, object %s, %s" % ("present" if ob else "absent", "shared" if shared else "sole reference")


def caller_rewrites(w, path, data=b"the caller reuses its file"):
    """in-place rewrite (same inode) of a file that belongs to the caller"""
    if w.mode == "native":
        with open(path, "r+b") as fh:
            fh.write(data)
            fh.truncate()
    else:
        w.F.b.write(symfs.FS.p(path), data)


def make_data(call, w, p, content):
    """the data argument of a store call in one of its documented kinds: path string, Path, open binary file, in-memory
    stream (the latter two positioned at a solver-chosen offset); returns (argument, caller-owned stream or None)"""
    kind = call.kind
    if kind == "path":
        return p, None
    if kind == "Path":
        return (w.module().Path(p) if w.mode != "native" else __import__("pathlib").Path(p)), None
    if kind in ("stream", "bytesio"):
        if isinstance(call.offset, (list, tuple)):
            # the solver picks one of the listed offsets (OFFV is the index)
            call.off = call.offset[w.ps.choose(OFFV, 0, len(call.offset))]
        elif call.offset is None:
            n = len(content)
            w.ps.constrain(z3.And(OFFV >= 0, OFFV <= n))
            call.off = w.ps.choose(OFFV, 0, n + 1)
        else:
            call.off = call.offset
    if kind == "stream":
        if w.mode != "native":
            f = symfs.FakeFile.__new__(symfs.FakeFile)      # a caller-owned handle: opening it is not an
            f._fs, f.name, f.mode, f._text = w.F, p, "rb", False   # operation of the call under test
            f._pending, f._pos, f._writable, f._append, f._closed, f._orphan = [], 0, False, False, False, False
        else:
            f = open(p, "rb")
        f.seek(call.off)
        return f, f
    if kind == "bytesio":
        f = io.BytesIO(content)
        f.seek(call.off)
        return f, f
    if kind == "written":
        # a file of the caller's own that it has just written through this very handle and not flushed: the
        # handle is at the end of the data, part of which is still in its buffer
        wp = p + ".written"
        if w.mode != "native":
            w.F.b.create(symfs.FS.p(wp), content[:max(0, len(content) - 3)])
            f = symfs.FakeFile.__new__(symfs.FakeFile)
            f._fs, f.name, f.mode, f._text = w.F, symfs.FS.p(wp), "w+b", False
            f._pending, f._pos, f._writable, f._append, f._closed, f._orphan = [], len(content), True, False, False, False
            if len(content) > 0:
                f._pending = [(max(0, len(content) - 3), content[max(0, len(content) - 3):])]
            w.F.handles.append(f)
        else:
            f = open(wp, "w+b")
            f.write(content)
        call.off = len(content)
        return f, f
    if kind == "decoder":
        # a buffered reader whose `name` is not where its bytes come from (gzip.open(), a decrypting or
        # transcoding reader ...): `name` is an existing file with other content and another size
        f = NamedReader(content)
        f.name = call.other_name(w)
        call.off = 0
        return f, f
    raise ValueError(kind)


class NamedReader(io.BytesIO):
    name = None


class StoreObj(Call):
    """store_object(pid, data[, additional_algorithm, checksum, checksum_algorithm, size])"""

    def __init__(self, i, k, kind="path", add=None, checksum=None, calgo=None, size=None, invalid=False,
                 offset=0, tagname="", add_canon=None, calgo_canon=None, roles=None):
        self.add_canon, self.calgo_canon = add_canon, calgo_canon
        self.i, self.k, self.kind = i, k, kind
        self.add, self.checksum, self.calgo, self.size, self.invalid = add, checksum, calgo, size, invalid
        self.offset = offset
        self.label = "store_object(pid%d, c%d%s%s)" % (i, k, "" if kind == "path" else "," + kind, tagname)
        self.roles = roles or "store_object(pid, content%s)" % tagname

    def data(self, w):
        return make_data(self, w, w.src(self.k), w.contents[self.k])

    def other_name(self, w):
        return w.src((self.k + 1) % w.NK)

    def run(self, w, s):
        data, stream = self.data(w)
        self.stream = stream
        return s.store_object(w.pids[self.i], data, self.add, self.checksum, self.calgo, self.size)

    def model(self, w, pre):
        return [(c, MISMATCH if cl == "mismatch" else frozenset([cl])) for c, cl in
                w.m_store(pre, self.i, self.k, self.invalid)[0]], w.m_store(pre, self.i, self.k, self.invalid)[1]

    def check_value(self, w, ps, val, res):
        bad = []
        if res == "ok":
            c = w.contents[self.k]
            if val.cid != hashlib.new(w.halgo, c).hexdigest():
                bad.append(("returned-cid-not-digest", val.cid))
            if val.obj_size != len(c):
                bad.append(("returned-size-wrong", val.obj_size))
            for a, h in val.hex_digests.items():
                try:
                    if h != hashlib.new(a, c).hexdigest():
                        bad.append(("returned-digest-wrong", a))
                except ValueError:
                    bad.append(("returned-digest-key-not-an-algorithm", a))
            want = set(FIVE) | ({self.add_canon} if self.add_canon else set()) | (
                {self.calgo_canon} if self.calgo_canon else set())
            if (self.add is None or self.add_canon) and (self.calgo is None or self.calgo_canon):
                if set(val.hex_digests) != want:
                    bad.append(("returned-digest-key-set-wrong", sorted(val.hex_digests)))
        st = getattr(self, "stream", None)
        if st is not None and res in ("ok", "exists", "mismatch"):
            if st.closed:
                bad.append(("caller-stream-closed", self.kind))
            elif st.tell() != self.off:
                bad.append(("caller-stream-offset-moved", self.kind, self.off, st.tell()))
        return bad

    def after(self, w, s, res):
        if res != "ok":
            return []
        if self.kind in ("path", "Path"):
            caller_rewrites(w, w.src(self.k))       # the caller goes on to use its own file for something else
        try:
            st = s.retrieve_object(w.pids[self.i])
            try:
                got = st.read()
            finally:
                st.close()
        except Exception as e:   # noqa
            return [("stored-object-not-retrievable", type(e).__name__)]
        if got != w.contents[self.k]:
            return [("retrieved-bytes-differ-from-stored", got[:40])]
        return []

    def relation(self, w, vals):
        return _rel_pid(w, vals, self.i) + ", content object %s" % (
            "present" if vals.get("obj_%d" % self.k) else "absent")


class StoreData(Call):
    def __init__(self, k):
        self.k = k
        self.label = "store_object(None, c%d)" % k
        self.roles = "store_object(data only)"

    def run(self, w, s):
        return s.store_object(None, w.src(self.k))

    def model(self, w, pre):
        cases, post = w.m_store_nopid(pre, self.k)
        return [(c, OK) for c, _ in cases], post

    def check_value(self, w, ps, val, res):
        if res == "ok" and val.cid != w.real_cids[self.k]:
            return [("returned-cid-not-digest", val.cid)]
        return []

    def relation(self, w, vals):
        return "content object %s" % ("present" if vals.get("obj_%d" % self.k) else "absent")


class Tag(Call):
    def __init__(self, i, j):
        self.i, self.j = i, j
        self.label = "tag_object(pid%d, cid%d)" % (i, j)
        self.roles = "tag_object(pid, cid)"

    def run(self, w, s):
        return s.tag_object(w.pids[self.i], w.cids[self.j])

    def model(self, w, pre):
        cases, post = w.m_tag(pre, self.i, self.j)
        return [(c, frozenset([cl])) for c, cl in cases], post

    def relation(self, w, vals):
        tgt = "cid never stored" if self.j == w.fake else (
            "cid object %s" % ("present" if vals.get("obj_%d" % self.j) else "absent"))
        has_list = any(vals.get("bind_%d" % q, -1) == self.j for q in range(w.NP))
        return _rel_pid(w, vals, self.i) + ", " + tgt + (", cid has a list" if has_list else ", cid has no list")


class Delete(Call):
    def __init__(self, i):
        self.i = i
        self.label = "delete_object(pid%d)" % i
        self.roles = "delete_object(pid)"

    def run(self, w, s):
        return s.delete_object(w.pids[self.i])

    def model(self, w, pre):
        cases, post = w.m_delete(pre, self.i)
        return [(c, frozenset([cl])) for c, cl in cases], post

    def relation(self, w, vals):
        return _rel_pid(w, vals, self.i)


class DeleteIfInvalid(Call):
    def __init__(self, k, checksum, calgo, size, invalid, tagname=""):
        self.k, self.checksum, self.calgo, self.size, self.invalid = k, checksum, calgo, size, invalid
        self.label = "delete_if_invalid_object(c%d%s)" % (k, tagname)
        self.roles = "delete_if_invalid_object(%s)" % (tagname.strip(", ") or ("invalid" if invalid else "valid"))
        self.needs = lambda w: w.obj[k]

    def run(self, w, s):
        c = w.contents[self.k]
        om = w.module().ObjectMetadata("HashStoreNoPid", w.real_cids[self.k], len(c),
                                       {a: hashlib.new(a, c).hexdigest() for a in FIVE})
        self.om = om
        return s.delete_if_invalid_object(om, self.checksum, self.calgo, self.size)

    def check_value(self, w, ps, val, res):
        # the descriptor is the caller's (it is what store_object returned earlier): the verdict call does not edit it
        om = getattr(self, "om", None)
        c = w.contents[self.k]
        if om is not None and (dict(om.hex_digests) != {a: hashlib.new(a, c).hexdigest() for a in FIVE}
                               or om.obj_size != len(c) or om.cid != w.real_cids[self.k]):
            return [("descriptor-returned-by-an-earlier-store-was-modified", sorted(om.hex_digests))]
        return []

    def model(self, w, pre):
        cases, post = w.m_delete_if_invalid(pre, self.k, self.invalid)
        return [(c, MISMATCH if cl == "mismatch" else OK) for c, cl in cases], post

    def relation(self, w, vals):
        ref = any(vals.get("bind_%d" % q, -1) == self.k for q in range(w.NP))
        return "object %s" % ("referenced" if ref else "unreferenced")


class StoreMeta(Call):
    def __init__(self, i, v, f, kind="path", offset=0):
        self.i, self.v, self.f, self.kind, self.offset = i, v, f, kind, offset
        self.label = "store_metadata(pid%d, d%d%s, %r)" % (i, v, "" if kind == "path" else "," + kind, f)
        self.roles = "store_metadata(pid, doc%s, %s)" % ("" if kind == "path" else " as " + kind,
                                                        "default" if f is None else "format")

    def other_name(self, w):
        return w.docsrc((self.v + 1) % w.ND)

    def run(self, w, s):
        data, self.stream = make_data(self, w, w.docsrc(self.v), w.docs[self.v])
        return s.store_metadata(w.pids[self.i], data, self.f)

    def model(self, w, pre):
        cases, post = w.m_store_meta(pre, self.i, self.v, self.f)
        return [(c, OK) for c, _ in cases], post

    def after(self, w, s, res):
        if res != "ok" or self.kind not in ("path", "Path"):
            return []
        caller_rewrites(w, w.docsrc(self.v))        # the caller goes on to use its own file for something else
        try:
            st = s.retrieve_metadata(w.pids[self.i], self.f)
            try:
                got = st.read()
            finally:
                st.close()
        except Exception as e:   # noqa
            return [("stored-document-not-retrievable", type(e).__name__)]
        if got != w.docs[self.v]:
            return [("stored-document-follows-the-caller's-file", got[:40])]
        return []

    def check_value(self, w, ps, val, res):
        if res == "ok":
            exp = w.META[self.i][w.cell(self.f)]
            if w.mode == "native":
                exp = w.scratch + exp
            if str(val) != exp:
                return [("returned-path-wrong", str(val))]
            st = getattr(self, "stream", None)
            if st is not None:
                # like store_object: the caller's stream stays open at the offset it had
                if st.closed:
                    return [("caller-stream-closed", self.kind)]
                if st.tell() != self.off:
                    return [("caller-stream-offset-moved", self.kind, self.off, st.tell())]
        return []

    def relation(self, w, vals):
        return "document %s" % ("present" if vals.get("meta_%d_%d" % (self.i, w.cell(self.f)), -1) >= 0 else "absent")


class RetrieveMeta(Call):
    readonly = True

    def __init__(self, i, f):
        self.i, self.f = i, f
        self.label = "retrieve_metadata(pid%d, %r)" % (i, f)
        self.roles = "retrieve_metadata(pid, %s)" % ("default" if f is None else "format")

    def run(self, w, s):
        st = s.retrieve_metadata(w.pids[self.i], self.f)
        try:
            return st.read()
        finally:
            st.close()

    def model(self, w, pre):
        cases, post = w.m_retrieve_meta(pre, self.i, self.f)
        return [(c, OK if cl == "ok" else VALERR) for c, cl in cases], post

    def check_value(self, w, ps, val, res):
        if res != "ok":
            return []
        m = w.meta[self.i][w.cell(self.f)]
        cands = [z3.BoolVal(True) if False else (m == v) for v in range(w.ND) if w.docs[v] == val]
        ok, _ = ps.valid(z3.Or(cands)) if cands else (False, None)
        return [] if ok else [("retrieved-metadata-not-last-stored", val[:40])]

    def relation(self, w, vals):
        return "document %s" % ("present" if vals.get("meta_%d_%d" % (self.i, w.cell(self.f)), -1) >= 0 else "absent")


class DeleteMeta(Call):
    def __init__(self, i, f, all_docs=False):
        self.i, self.f, self.all_docs = i, f, all_docs
        self.label = "delete_metadata(pid%d%s)" % (i, "" if all_docs else ", %r" % (f,))
        self.roles = "delete_metadata(pid%s)" % ("" if all_docs else ", format")

    def run(self, w, s):
        if self.all_docs:
            return s.delete_metadata(w.pids[self.i])
        return s.delete_metadata(w.pids[self.i], self.f)

    def model(self, w, pre):
        cases, post = w.m_delete_meta(pre, self.i, self.f, self.all_docs)
        return [(c, OK) for c, _ in cases], post

    def relation(self, w, vals):
        n = sum(1 for f in range(w.NF) if vals.get("meta_%d_%d" % (self.i, f), -1) >= 0)
        return "%d documents present" % n


class Retrieve(Call):
    readonly = True

    def __init__(self, i):
        self.i = i
        self.label = "retrieve_object(pid%d)" % i
        self.roles = "retrieve_object(pid)"

    def run(self, w, s):
        st = s.retrieve_object(w.pids[self.i])
        try:
            return st.read()
        finally:
            st.close()

    def model(self, w, pre):
        cases, post = w.m_retrieve(pre, self.i)
        return [(c, frozenset([cl])) for c, cl in cases], post

    def check_value(self, w, ps, val, res):
        if res != "ok":
            return []
        cands = [w.bind[self.i] == j for j in range(w.NK) if w.contents[j] == val]
        ok, _ = ps.valid(z3.Or(cands)) if cands else (False, None)
        return [] if ok else [("retrieved-bytes-not-bound-content", val[:40])]

    def relation(self, w, vals):
        return _rel_pid(w, vals, self.i)


class HexDigest(Call):
    readonly = True

    def __init__(self, i, algo, canon):
        self.i, self.algo, self.canon = i, algo, canon
        self.label = "get_hex_digest(pid%d, %r)" % (i, algo)
        self.roles = "get_hex_digest(pid, %s)" % canon

    def run(self, w, s):
        return s.get_hex_digest(w.pids[self.i], self.algo)

    def model(self, w, pre):
        cases, post = w.m_retrieve(pre, self.i)
        return [(c, frozenset([cl])) for c, cl in cases], post

    def check_value(self, w, ps, val, res):
        if res != "ok":
            return []
        cands = [w.bind[self.i] == j for j in range(w.NK)
                 if hashlib.new(self.canon, w.contents[j]).hexdigest() == val]
        ok, _ = ps.valid(z3.Or(cands)) if cands else (False, None)
        return [] if ok else [("hex-digest-not-true-digest", val[:40])]

    def relation(self, w, vals):
        return _rel_pid(w, vals, self.i)


class Raw(Call):
    """A call that must be rejected (or is read-only) and change nothing: fn(w, s) -> value."""
    rejected = True

    def __init__(self, label, roles, fn, classes):
        self.label, self.roles, self.fn = label, roles, fn
        self.classes = frozenset(classes)

    def run(self, w, s):
        return self.fn(w, s)

    def model(self, w, pre):
        return [(z3.BoolVal(True), self.classes)], w._copy(pre)


class After(Call):
    """second call issued on the same instance right after a read-only first call (whose outcome is ignored):
    the second call must behave exactly as if it were the only one"""

    def __init__(self, first, second):
        assert first.readonly or first.rejected
        self.first, self.second = first, second
        self.label = "%s ; then %s" % (first.label, second.label)
        self.roles = "%s after a %s on the same instance" % (second.roles, first.roles)
        self.readonly, self.rejected, self.needs = second.readonly, second.rejected, second.needs
        for a in ("i", "k", "j", "f"):
            if hasattr(second, a):
                setattr(self, a, getattr(second, a))

    def run(self, w, s):
        try:
            self.first.run(w, s)
        except symfs.Crash:
            raise
        except Exception:   # noqa
            pass
        return self.second.run(w, s)

    def model(self, w, pre):
        return self.second.model(w, pre)

    def check_value(self, w, ps, val, res):
        return self.second.check_value(w, ps, val, res)

    def relation(self, w, vals):
        return self.second.relation(w, vals)

    def after(self, w, s, res):
        return self.second.after(w, s, res)


def fresh_instance_equivalence(w, s, probe):
    """Run probe(w, instance) -> list of outcomes on the instance that just served a call and on a fresh instance over
    a copy of the same store; the results of the API must depend on the store only, not on the instance's past."""
    import shutil
    if w.mode == "model":
        F = w.F
        F2 = symfs.FS(F.b.clone_concrete(), blksize=w.blksize)
        F2.env = dict(F.env)
        used = probe(w, s)
        w.shim.fs = F2
        try:
            fresh = probe(w, w.instance())
        finally:
            w.shim.fs = F
    else:
        root2 = w.scratch + "/copy"
        shutil.copytree(w.scratch + "/s", root2 + "/s")
        used = probe(w, s)
        s2 = w.module().FileHashStore(w.props(root2 + "/s"))
        fresh = probe(w, s2)
        shutil.rmtree(root2, ignore_errors=True)
    if used != fresh:
        d = [(i, a, b) for i, (a, b) in enumerate(zip(used, fresh)) if a != b][:2]
        return [("results-depend-on-earlier-calls-on-the-instance", d)]
    return []


def _summ(v):
    if v is None or isinstance(v, (bytes, str, int)):
        return v
    if hasattr(v, "cid") and hasattr(v, "obj_size"):
        return ("ObjectMetadata", v.cid, v.obj_size, tuple(sorted(v.hex_digests.items())))
    if hasattr(v, "read"):
        try:
            return v.read()
        finally:
            v.close()
    return type(v).__name__


def general_probe(w, s):
    """a fixed follow-up history touching every method"""
    out = []
    P = w.pids

    def rec(fn):
        try:
            out.append(("ok", _summ(fn())))
        except symfs.Crash:
            raise
        except Exception as e:   # noqa
            out.append(("exc", type(e).__name__))
    for p in P:
        rec(lambda: s.retrieve_object(p))
    rec(lambda: s.retrieve_metadata(P[0]))
    rec(lambda: s.get_hex_digest(P[0], "md5"))
    rec(lambda: s.delete_object(P[0]))
    rec(lambda: s.retrieve_object(P[0]))
    rec(lambda: s.retrieve_metadata(P[0]))
    rec(lambda: s.store_object(P[0], w.src(0)))
    rec(lambda: s.retrieve_object(P[0]))
    rec(lambda: s.get_hex_digest(P[0], "md5"))
    rec(lambda: s.store_metadata(P[0], w.docsrc(1)) and None)
    rec(lambda: s.retrieve_metadata(P[0]))
    rec(lambda: s.delete_metadata(P[0]))
    rec(lambda: s.retrieve_metadata(P[0]))
    rec(lambda: s.tag_object(P[-1], w.cids[0]))
    rec(lambda: s.retrieve_object(P[-1]))
    return out


def probed(call):
    """the same call, followed (after the post-state was abstracted) by the fresh-instance equivalence probe"""
    call.finally_ = lambda w, s, res: fresh_instance_equivalence(w, s, general_probe)
    call.label += " + probe"
    return call


# ---------------------------------------------------------------------------------------------- the step itself
import re
CONTAINED = re.compile(r"^/s/((objects|metadata|refs/pids)(/[0-9a-f]+)*(/[0-9a-f]+_delete)?|"
                       r"refs/cids(/[0-9a-fA-F]+)*(/[0-9a-fA-F]+_delete)?|(objects|metadata|refs)/tmp(/tmp[0-9]+)?)$")
CALLV = z3.Int("call")
OFFV = z3.Int("offset")


def c04_formula(w, pre, post):
    """every object that is referenced after the call and existed before it still exists (bytes checked by post())"""
    cl = []
    for j in range(w.NC):
        if w.OBJ[j] is None:
            continue
        referenced_after = z3.Or([post["bind"][q] == j for q in range(w.NP)])
        cl.append(z3.Implies(z3.And(referenced_after, pre["obj"][j]), post["obj"][j]))
    return z3.And(cl) if cl else z3.BoolVal(True)


def frame_others(w, pre, post, i):
    """C03: every other pid's reference, and membership of every list for other pids, unchanged"""
    cl = []
    for q in range(w.NP):
        if q == i:
            continue
        cl.append(post["bind"][q] == pre["bind"][q])
        for j in range(w.NC):
            cl.append(post["mem"][j][q] == pre["mem"][j][q])
    return z3.And(cl) if cl else z3.BoolVal(True)


def run_step(ps, w, menu, extra_assume=None):
    """Execute one path: build the symbolic state, pick a call, run the real code, evaluate all clauses."""
    w.build(ps)
    s = w.store()
    n = ps.choose(CALLV, 0, len(menu))
    call = menu[n]
    if call.needs is not None:
        ps.assume(call.needs(w))
    if extra_assume is not None:
        for e in extra_assume(w, call):
            ps.assume(e)
    pre = w.pre()
    nops0 = w.F.nops if w.F is not None else 0
    diverged = None
    try:
        val = call.run(w, s)
        res = "ok"
    except symfs.Crash:
        raise
    except symfs.Diverged as e:
        res, val, diverged = "DOES-NOT-RETURN", Exception(str(e)), str(e)
        if w.F is not None:
            w.F.npoints = 0
    except Exception as e:     # noqa
        res = w.classify(e)
        val = e
        if type(e).__name__ == "WouldBlock":      # single-threaded stand-ins: a wait() that nobody can end
            diverged = "blocks for ever: " + str(e)
    bad = []
    if diverged:
        bad.append(("result-class", "DOES-NOT-RETURN", diverged))
        bad.append(("call-does-not-return", diverged))
    for p in call.after(w, s, res):
        bad.append(("round-trip:" + p[0], p[1:]))
    post = w.post()
    for p in post["problems"]:
        bad.append(("store-state:" + p[0], p[1:]))
    ok, m = ps.valid(w.inv_post(post))
    nob = 1
    if not ok:
        bad.append(("bookkeeping-not-exact", "Inv not closed"))
    cases, exp = call.model(w, pre)
    matched = False
    for cond, classes in cases:
        if res in classes:
            matched = True
            okc, _ = ps.valid(cond)
            nob += 1
            if not okc:
                bad.append(("result-class", res, "not implied by the pre-state"))
    if not matched:
        bad.append(("result-class", res, "not a documented outcome of this call"))
    for part in ("bind", "obj", "meta"):
        okm, _ = ps.valid(w.state_eq(post, exp, (part,)))
        nob += 1
        if not okm:
            bad.append(("model:" + part, "post-state differs from the reference model"))
    ok4, _ = ps.valid(c04_formula(w, pre, post))
    nob += 1
    if not ok4:
        bad.append(("referenced-object-removed", ""))
    if hasattr(call, "i"):
        okf, _ = ps.valid(frame_others(w, pre, post, call.i))
        nob += 1
        if not okf:
            bad.append(("other-pid-references-changed", ""))
        if isinstance(call, (StoreObj, Tag)):
            bound = pre["bind"][call.i] >= 0
            okb, _ = ps.valid(z3.Implies(bound, post["bind"][call.i] == pre["bind"][call.i]))
            nob += 1
            if not okb:
                bad.append(("bound-pid-rebound", ""))
    for p in w.instance_problems(s):
        bad.append(("instance-state", p[0], p[1:]))
    for p in call.check_value(w, ps, val, res):
        bad.append(("returned-value", p[0], p[1:]))
    for p in call.finally_(w, s, res):
        bad.append(("history:" + p[0], p[1:]))
    trace = list(w.F.trace[nops0:]) if w.F is not None else []
    if (call.rejected or call.readonly) and w.F is not None:
        mut = [t for t in trace if t[0] in symfs.MUTATING]
        if mut:
            bad.append(("rejected-or-read-only-call-mutated", mut[:3]))
    if w.F is not None:
        esc = [t for t in trace if t[0] in symfs.MUTATING and t[1] != "fd" and not CONTAINED.match(t[1])
               and not t[1].endswith(".written")]       # (flushing the caller's own handle writes the caller's file)
        if esc:
            bad.append(("path-outside-store-or-not-hash-derived", esc[:3]))
    else:
        for pth in w.native_escapes():
            bad.append(("path-outside-store-or-not-hash-derived", pth))
    rec = dict(n=n, call=call.label, roles=call.roles, res=res, bad=bad, nob=nob, expect_hang=bool(diverged),
               env_asked=sorted(w.F.env_asked) if w.F is not None else [],
               err=(type(val).__name__ + ": " + str(val)[:160]) if isinstance(val, Exception) else None,
               ntrace=len(trace))
    if bad:
        vals = ps.model_values(w.statevars + [CALLV, OFFV])
        rec["vals"] = vals
        rec["relation"] = call.relation(w, vals)
    else:
        rec["relation"] = None
    return rec


def explore_steps(w_args, menu_fn, splits=None, clauses=None, procs=None, deadline_s=None, extra_assume=None,
                  inv_kwargs=None):
    """Explore all (state, call) classes.  w_args: kwargs of World; menu_fn(world) -> menu (deterministic)."""
    import time as _t

    def worker(split):
        w = World(**w_args)
        menu = menu_fn(w)
        idx = list(split) if split is not None else list(range(len(menu)))
        ps = PathSym(w.inv(**(inv_kwargs or {})) + [member_of(CALLV, idx)])
        dl = (_t.time() + deadline_s) if deadline_s else None
        recs = ps.explore(lambda p: run_step(p, w, menu, extra_assume), deadline=dl)
        w.cleanup()
        return recs, ps.st.as_dict(), len(menu)

    if splits is None:
        try:
            w0 = World(**w_args)
        except Exception as e:   # noqa
            if type(e).__name__ == "Aliasing":
                return [("ALIAS", e.what, 0)]
            if type(e).__name__ == "LearnFailed":
                return [("LEARN", (e.what, dict(contents=[c for c in w_args["contents"]])), 0)]
            raise
        n = len(menu_fn(w0))
        import os
        k = procs or min(16, os.cpu_count() or 4)
        splits = [list(range(r, n, k)) for r in range(k) if r < n]
    return par_explore(worker, splits, procs)


def learn_native(what, contents):
    """native confirmation of a plain call that failed (or left other files than expected) on an empty store"""
    import logging
    import os
    import shutil
    from . import loader
    from .universe import scratch_root
    logging.disable(logging.CRITICAL)
    MN = loader.load("filehashstore.py")
    root = scratch_root()
    try:
        s = MN.FileHashStore(dict(store_path=root + "/s", store_depth=3, store_width=2, store_algorithm="SHA-256",
                                  store_metadata_namespace="ns"))
        with open(root + "/d0", "wb") as fh:
            fh.write(b"<doc/>")

        def tree():
            return sorted(os.path.join(dp, f) for dp, _d, fs in os.walk(root + "/s") for f in fs)
        before = tree()
        api, args = what["api"], what["args"]
        try:
            if api == "store_object":
                with open(root + "/c", "wb") as fh:
                    fh.write(contents[args[1]])
                s.store_object(args[0], root + "/c")
                expect = 1
            elif api == "tag_object":
                s.tag_object(args[0], args[1])
                expect = 2
            else:
                s.store_metadata(args[0], root + "/d0", args[1])
                expect = 1
            newf = [f for f in tree() if f not in before]
            n = len(newf)
            out = "created %d files" % n
            bad = n != expect
            if api == "tag_object" and not bad:
                # one file holding exactly the cid, one holding exactly the pid and a newline
                datas = sorted(open(f, "rb").read() for f in newf)
                if datas != sorted([args[1].encode("utf8"), (args[0] + "\n").encode("utf8")]):
                    out, bad = "reference files hold %r" % (datas,), True
        except Exception as e:   # noqa
            out, bad = "%s: %s" % (type(e).__name__, str(e)[:160]), True
        return bad, "native run (unpatched code, real file system, empty store): %s%r -> %s" % (api, tuple(args), out)
    finally:
        shutil.rmtree(root, ignore_errors=True)


def alias_native(what, files=None):
    """native confirmation: two distinct identifiers observed at one address really share state on a real store.
    files: {relative path: bytes} present in the working directory (identifiers may be spelled like paths)"""
    import logging
    import os
    import shutil
    from . import loader
    from .universe import scratch_root
    logging.disable(logging.CRITICAL)
    MN = loader.load("filehashstore.py")
    root = scratch_root()
    out = []
    cwd0 = os.getcwd()
    try:
        os.chdir(root)
        for rel, data in (files or {}).items():
            os.makedirs(os.path.dirname(os.path.join(root, rel)), exist_ok=True)
            with open(os.path.join(root, rel), "wb") as fh:
                fh.write(data)
        for group in what:
            a, b = tuple(group[0]), tuple(group[1])
            s = MN.FileHashStore(dict(store_path=root + "/s%d" % len(out), store_depth=3, store_width=2,
                                      store_algorithm="SHA-256", store_metadata_namespace="ns"))
            for name, data in (("fa", b"AAAA"), ("fb", b"BBBB")):
                with open(root + "/" + name, "wb") as fh:
                    fh.write(data)
            if a[0] == "cid":
                # two different cids each get a reference list of their own
                s.tag_object("alias-probe-1", a[1])
                s.tag_object("alias-probe-2", b[1])
                lists = [os.path.join(dp, f) for dp, _d, fs in os.walk(s.cids) for f in fs]
                out.append((a[1][:16], b[1][:16], len(lists) == 2, "%d reference list(s) for two cids" % len(lists)))
            elif a[0] == "pid":
                s.store_object(a[1], root + "/fa")
                try:
                    s.store_object(b[1], root + "/fb")
                    got = s.retrieve_object(a[1]).read()
                    ok = got == b"AAAA" and s.retrieve_object(b[1]).read() == b"BBBB"
                except Exception as e:   # noqa
                    ok, got = False, type(e).__name__
                out.append((a[1], b[1], ok, got))
            else:
                s.store_metadata(a[1], root + "/fa", a[2])
                s.store_metadata(b[1], root + "/fb", b[2])
                got = s.retrieve_metadata(a[1], a[2]).read()
                out.append((a[1:], b[1:], got == b"AAAA", got))
        bad = [o for o in out if not o[2]]
        return bool(bad), ("native run (unpatched code, real file system): storing under the second identifier "
                           "affects the first: %r" % (bad,))
    finally:
        os.chdir(cwd0)
        shutil.rmtree(root, ignore_errors=True)


def replay_native(w_args, menu_fn, vals, want_clauses, mode="native"):
    """Re-run one (state, call) on the real file system with the unpatched code; returns (reproduced, text).
    mode="passthrough": through the interposition layer instead (for an environment that cannot be imposed on a
    running process, such as its locale)."""
    a = dict(w_args)
    a["mode"] = mode
    w = World(**a)
    try:
        menu = menu_fn(w)
        pins = []
        for v in w.statevars + [CALLV, OFFV]:
            name = str(v)
            if name in vals:
                x = vals[name]
                pins.append(v == (z3.BoolVal(x) if isinstance(x, bool) else z3.IntVal(x)))
        ps = PathSym(w.inv() + pins)
        try:
            recs = ps.explore(lambda p: run_step(p, w, menu))
        except Exception as e:   # noqa
            if type(e).__name__ == "HistoryFailed":
                # the plain, valid calls that build the pre-state fail on the real code: reproduced (earlier than asked)
                return True, ("native replay (unpatched code, real file system): the history that builds the "
                              "pre-state already fails: %s" % e)
            raise
        if len(recs) != 1:
            return False, "native replay produced %d paths" % len(recs)
        r = recs[0]
        got = [b[0] for b in r["bad"]]
        hit = [c for c in want_clauses if c in got]
        text = ("native replay (unpatched code, real file system)" if mode == "native" else
                "passthrough replay (real file system through the interposition layer, default text encoding ASCII)") + ": history=%s; call=%s; result=%s%s; failing clauses=%s" % (
            getattr(w, "history", []), r["call"], r["res"], (" [" + r["err"] + "]") if r["err"] else "", r["bad"])
        return bool(hit), text
    finally:
        w.cleanup()
