"""Crash points as a symbolic variable: `crash_at` = index of the file-system operation before which the process
dies.  The environment model is frozen at that point (finally/except code cannot tidy up), the frozen state is
inspected (C09) and a fresh store instance is opened on it (C10)."""
import hashlib
import os
import z3

from . import symfs, step
from .pathsym import PathSym, par_explore, member_of
from .universe import World

CRASHV = z3.Int("crash_at")
INCONSISTENT = ("PidRefsDoesNotExist", "RefsFileExistsButCidObjMissing", "OrphanPidRefsFileFound",
                "PidNotFoundInCidRefsFile")


def addr_kind(path):
    if "/tmp/" in path or path.endswith("/tmp"):
        return "tmp"
    for pre, k in (("/s/objects", "object"), ("/s/metadata", "metadata"), ("/s/refs/pids", "pid-ref"),
                   ("/s/refs/cids", "cid-list")):
        if path.startswith(pre):
            return k + ("-delete-marker" if path.endswith("_delete") else "")
    return "other"


def inspect_permanent(w, only_touched=True):
    """C09: every permanent file that the call touched holds complete content."""
    b = w.F.b
    bad = []
    if w.mode == "model":
        items = [(k, e) for k, e in b.files.items() if e is not w.initial.get(k)]
        paths = [k for k, e in items if b.isfile(k)]
    else:
        paths = list(b.snapshot("/s/"))
    for k in paths:
        kind = addr_kind(k)
        data = b.read(k)
        if kind == "object":
            rel = k[len("/s/objects/"):].replace("/", "")
            if hashlib.new(w.halgo, data).hexdigest() != rel:
                bad.append(("object-address-holds-other-content", k[-12:], data[:24]))
        elif kind == "metadata":
            if data not in w.docs:
                bad.append(("metadata-document-not-a-complete-version", k[-12:], data[:24]))
        elif kind == "pid-ref":
            if data.decode("utf8", "replace") not in w.cids:
                bad.append(("pid-reference-not-a-complete-cid", k[-12:], data[:24]))
    return bad


def nonatomic_ops(trace):
    """C09: content appears at / disappears from a permanent address in a single step: the only operations whose
    destination is a permanent object / metadata / pid-ref address are rename and remove."""
    bad = []
    for kind, path in trace:
        if kind in ("open-w", "open-a", "open-x", "open-r+", "write", "truncate", "create") and \
                addr_kind(path) in ("object", "metadata", "pid-ref"):
            bad.append(("in-place-write-at-permanent-address", kind, addr_kind(path)))
    return bad


def frame_after_crash(w, pre, post, i):
    cl = []
    for q in range(w.NP):
        if q == i:
            continue
        cl.append(post["bind"][q] == pre["bind"][q])
        for j in range(w.NC):
            cl.append(z3.Implies(pre["bind"][q] == j, post["mem"][j][q]))      # still listed where it is bound
        for f in range(w.NF):
            cl.append(post["meta"][q][f] == pre["meta"][q][f])
    for j in range(w.NC):
        if w.OBJ[j] is None:
            continue
        others = z3.Or([pre["bind"][q] == j for q in range(w.NP) if q != i] + [z3.BoolVal(False)])
        cl.append(z3.Implies(z3.And(others, pre["obj"][j]), post["obj"][j]))     # no loss (bytes: post() problems)
    return z3.And(cl) if cl else z3.BoolVal(True)


def run_crash(ps, w, menu, pinned_crash=None, recover=True):
    F = w.build(ps)
    s = w.store()
    n = ps.choose(step.CALLV, 0, len(menu))
    call = menu[n]
    if call.needs is not None:
        ps.assume(call.needs(w))
    pre = w.pre()
    i = getattr(call, "i", None)
    pid = w.pids[i] if i is not None else None
    child = None
    if w.mode == "passthrough":
        # replay on the real file system: the call runs in a forked child that really dies at operation `crash_at`
        def inj(idx, kind, path):
            if idx == pinned_crash:
                os._exit(77)
        rd, wr = os.pipe()
        child = os.fork()
        if child == 0:
            F.injector = inj
            code = 0
            try:
                call.run(w, s)
            except BaseException:    # noqa
                code = 3
            os._exit(code)
        _, status = os.waitpid(child, 0)
        os.close(rd)
        os.close(wr)
        crashed = os.WIFEXITED(status) and os.WEXITSTATUS(status) == 77
        res = "crash" if crashed else "no-crash(exit %d)" % os.WEXITSTATUS(status)
        at, site = pinned_crash, ("?", "?")
    else:
        def inj(idx, kind, path):
            if ps.decide(CRASHV == idx):
                raise symfs.Crash()
        F.injector = inj
        crashed = False
        try:
            call.run(w, s)
            res = "ok"
        except symfs.Crash:
            crashed = True
            res = "crash"
        except Exception as e:   # noqa
            res = w.classify(e)
        if not crashed:
            ps.assume(CRASHV >= F.nops)
            return dict(kind="nocrash", call=call.label, roles=call.roles, res=res, nops=F.nops, bad=[], nob=0)
        at = F.nops - 1
        site = F.trace[at]
    if not crashed:
        return dict(kind="nocrash", call=call.label, roles=call.roles, res=res, nops=0, bad=[], nob=0)
    # ------------------------------------------------------------------ the frozen state
    F.dead = False
    F.injector = None
    bad = []
    nob = 0
    trace = list(F.trace[:at]) if w.mode == "model" else []
    for p in inspect_permanent(w):
        bad.append(("C09:" + p[0], p[1:]))
    for p in nonatomic_ops(trace):
        bad.append(("C09:" + p[0], p[1:]))
    post = w.post()
    for p in post["problems"]:
        if p[0] in ("pid-ref-garbled", "metadata-garbled", "object-bytes-changed"):
            bad.append(("C09:" + p[0], p[1:]))
    if i is not None:
        okf, _ = ps.valid(frame_after_crash(w, pre, post, i))
        nob += 1
        if not okf:
            bad.append(("C10:other-pid-harmed-by-crash", ""))
    observations = [p[0] for p in post["problems"] if p[0] in ("dup-line", "foreign-line", "unterminated-line")]
    if recover and i is not None:
        # a new process opens the store: the real constructor runs on what the crash left behind
        try:
            s2 = w.module().FileHashStore(w.props("/s"))
        except symfs.Crash:
            raise
        except Exception as e:   # noqa
            bad.append(("C10:store-cannot-be-opened-after-the-crash", type(e).__name__, str(e)[:100]))
            s2 = w.instance()
        post0 = w.post()
        ok0, _ = ps.valid(frame_after_crash(w, pre, post0, i))
        nob += 1
        if not ok0:
            bad.append(("C10:other-pid-harmed-by-reopening-the-store", ""))
        # (b) never wrong bytes
        try:
            st = s2.retrieve_object(pid)
            try:
                data = st.read()
            finally:
                st.close()
            cands = [w.bind[i] == j for j in range(w.NK) if w.contents[j] == data]
            okb = (isinstance(call, step.StoreObj) and data == w.contents[call.k]) or (
                isinstance(call, step.Tag) and call.j < w.NK and data == w.contents[call.j])
            if not okb and cands:
                okb, _ = ps.valid(z3.Or(cands))
                nob += 1
            if not okb:
                bad.append(("C10:interrupted-pid-served-with-wrong-bytes", data[:24]))
        except Exception as e:   # noqa
            if type(e).__name__ not in INCONSISTENT:
                bad.append(("C10:retrieve-after-crash-unexpected-error", type(e).__name__))
        # (c) delete (may say unknown) then store must succeed
        try:
            s2.delete_object(pid)
        except Exception as e:   # noqa
            if type(e).__name__ != "PidRefsDoesNotExist":
                bad.append(("C10:delete-after-crash-failed", type(e).__name__, str(e)[:100]))
        try:
            s2.store_object(pid, w.src(0) if w.mode == "native" else "/src/c0")
            st = s2.retrieve_object(pid)
            try:
                if st.read() != w.contents[0]:
                    bad.append(("C10:restored-pid-wrong-bytes", ""))
            finally:
                st.close()
        except Exception as e:   # noqa
            bad.append(("C10:store-after-crash-and-delete-failed", type(e).__name__, str(e)[:100]))
        post2 = w.post()
        okr, _ = ps.valid(frame_after_crash(w, pre, post2, i))
        nob += 1
        if not okr:
            bad.append(("C10:other-pid-harmed-by-recovery", ""))
        for p in post2["problems"]:
            if p[0] == "object-bytes-changed":
                bad.append(("C10:" + p[0], p[1:]))
    rec = dict(kind="crash", call=call.label, roles=call.roles, res=res, at=at, site=(site[0], addr_kind(site[1])),
               bad=bad, nob=nob, observations=observations, n=n)
    if bad:
        rec["vals"] = ps.model_values(w.statevars + [step.CALLV, step.OFFV, CRASHV])
        rec["relation"] = call.relation(w, rec["vals"])
    return rec


def explore_crashes(w_args, menu_fn, recover=True, procs=None):
    def worker(idx):
        w = World(**w_args)
        menu = menu_fn(w)
        ps = PathSym(w.inv() + [member_of(step.CALLV, idx), CRASHV >= 0])
        recs = ps.explore(lambda p: run_crash(p, w, menu, recover=recover))
        w.cleanup()
        return recs, ps.st.as_dict(), len(menu)
    w0 = World(**w_args)
    n = len(menu_fn(w0))
    k = procs or min(16, os.cpu_count() or 4)
    return par_explore(worker, [list(range(r, n, k)) for r in range(k) if r < n], procs)


def replay_crash(w_args, menu_fn, vals, want_prefixes, recover=True):
    a = dict(w_args)
    a["mode"] = "passthrough"
    w = World(**a)
    try:
        menu = menu_fn(w)
        pins = []
        for v in w.statevars + [step.CALLV, step.OFFV]:
            if str(v) in vals:
                x = vals[str(v)]
                pins.append(v == (z3.BoolVal(x) if isinstance(x, bool) else z3.IntVal(x)))
        ps = PathSym(w.inv() + pins)
        recs = ps.explore(lambda p: run_crash(p, w, menu, pinned_crash=vals["crash_at"], recover=recover))
        r = recs[0]
        hit = [b for b in r["bad"] if any(b[0].startswith(pfx) for pfx in want_prefixes)]
        return bool(hit), ("passthrough replay on the real file system (history %s; the call ran in a child process "
                           "that died with os._exit before file-system operation %d; parent reopened the store): %s -> %s"
                           % (getattr(w, "history", []), vals["crash_at"], r["call"], r["bad"]))
    finally:
        w.cleanup()
