"""Schedules as symbolic variables: pairs / triples of real API calls run in real threads under the cooperative
scheduler; every feasible assignment of the schedule vector (within the preemption bound) is executed and its outcome
compared with all sequential orders of the same calls from the same state (computed by the real code itself)."""
import itertools
import os
import z3

from . import symfs, sched, step
from .pathsym import PathSym, par_explore
from .universe import World


def summ(v):
    if v is None:
        return None
    if isinstance(v, (bytes, str, int)):
        return v
    if hasattr(v, "cid") and hasattr(v, "obj_size"):
        return ("ObjectMetadata", v.cid[:8], v.obj_size)
    return type(v).__name__


def norm(call, r):
    """a reader's not-found outcomes are one class (the property: 'one complete version or a not-found error')"""
    if r[0] == "exc" and getattr(call, "readonly", False) and r[1] in ("ValueError", "FileNotFoundError"):
        return ("exc", "not-found")
    return r


def run_call(w, s, call):
    try:
        return norm(call, ("ok", summ(call.run(w, s))))
    except symfs.Crash:
        raise
    except Exception as e:   # noqa
        return norm(call, ("exc", type(e).__name__))


def build_pinned(ps, w, init):
    """build the store in the concrete initial state `init` = dict(varname -> value); everything else absent"""
    pins = []
    for v in w.statevars:
        name = str(v)
        if name in ("fs_separate_file_systems", "env_debug_logging"):
            x = init.get(name, False)
        elif name.startswith("dir_") or name.startswith("fs_") or name == "env_locale_is_utf8":
            x = init.get(name, True)
        elif name.startswith("bind_") or name.startswith("meta_"):
            x = init.get(name, -1)
        elif name.startswith("obj_"):
            x = init.get(name, False)
        else:
            x = init.get(name, 0)
        pins.append(v == (z3.BoolVal(x) if isinstance(x, bool) else z3.IntVal(x)))
    ps.constrain(z3.And(pins))
    F = w.build(ps)
    if w.mode == "model":
        F.b.snapshot("/s/")          # force every lazy decision now (in the explorer's thread)
    return F


def sequential_outcomes(w, init, program):
    """all sequential orders, plus the documented already-in-progress rejection of a store_object whose pid another
    call of the program also stores (that call is then not executed)"""
    outs = {}
    n = len(program)
    groups = {}
    for t, c in enumerate(program):
        if isinstance(c, step.StoreObj):
            groups.setdefault(c.i, []).append(t)
    rejectable = [t for g in groups.values() if len(g) > 1 for t in g]
    subsets = [()]
    for r in range(1, len(rejectable) + 1):
        for sub in itertools.combinations(rejectable, r):
            if all(any(t not in sub for t in g) for g in groups.values() if len(g) > 1):
                subsets.append(sub)
    for sub in subsets:
        for perm in itertools.permutations([t for t in range(n) if t not in sub]):
            ps = PathSym(w.inv())
            ps.begin()
            build_pinned(ps, w, init)
            s = w.store()
            res = [None] * n
            for t in sub:
                res[t] = ("exc", "StoreObjectForPidAlreadyInProgress")
            for t in perm:
                res[t] = run_call(w, s, program[t])
            outs[(tuple(res), w.concrete_state())] = perm
    return outs


FAULTV = z3.Int("conc_fault_at")


def run_schedule(ps, w, init, program, bound, allowed, pinned=None, with_fault=False, pinned_fault=None, opts=None):
    F = build_pinned(ps, w, init)
    two = (opts or {}).get("instances", 1) > 1
    if two:
        # each call goes through its own store instance (made by the real constructor) on the one store: the
        # instances exclude nobody, so only termination and the lock lists are judged, not the outcome
        insts = w.real_instances(opts["instances"])
    else:
        insts = [w.store()]
    s = insts[0]
    sched.reset_primitives(s)
    sc = sched.Sched(ps, bound, pinned)
    sched.CUR[0] = sc
    F.on_point = sc.point
    fault = dict(hit=None)
    if with_fault:
        import errno as _errno

        def inj(idx, kind, path):
            if fault["hit"] is None:
                fire = (idx == pinned_fault) if pinned_fault is not None else ps.decide(FAULTV == idx)
                if fire:
                    fault["hit"] = (idx, kind, path)
                    raise OSError(_errno.EIO, "Input/output error (injected)", path)
        F.injector = inj
    ts = [sc.spawn(lambda c=c, si=insts[t % len(insts)]: summ(c.run(w, si)), c.label) for t, c in enumerate(program)]
    try:
        status = sc.run()
    finally:
        sched.CUR[0] = None
        F.on_point = None
        F.injector = None
    if with_fault and fault["hit"] is None and pinned_fault is None:
        ps.constrain(FAULTV >= F.nops)
    res = tuple(norm(c, ("ok", t.res[1]) if t.res and t.res[0] == "ok" else ("exc", t.res[1] if t.res else "none"))
                for c, t in zip(program, ts))
    bad = []
    if status != "done":
        at = [(t.name, t.at[0]) for t in ts if not t.done or (t.res and t.res[0] == "killed")]
        bad.append(("C08:" + status, at))
        state = None
    else:
        state = w.concrete_state()
        if not with_fault and not two and (res, state) not in allowed:
            same_res = [k for k in allowed if k[0] == res]
            why = "results match a sequential order but the final state does not" if same_res else \
                "no sequential order (nor the in-progress rejection) produces these results"
            bad.append(("LIN:not-linearizable", why, res))
        if with_fault:
            # a call that reported success achieved its effect, whatever the call that failed cleaned up
            for c, r in zip(program, res):
                if r[0] == "ok" and isinstance(c, step.StoreObj) and not any(
                        isinstance(d, step.Delete) and d.i == c.i for d in program):
                    try:
                        st = s.retrieve_object(w.pids[c.i])
                        try:
                            okb = st.read() == w.contents[c.k]
                        finally:
                            st.close()
                        if not okb:
                            bad.append(("C13:reported-success-but-wrong-bytes-are-served", w.pids[c.i]))
                    except Exception as e:   # noqa
                        bad.append(("C13:reported-success-but-the-pid-is-not-retrievable", type(e).__name__))
        after = (opts or {}).get("after")
        if after is not None:
            for b in after(w, s):
                bad.append(b)
        for si in insts:
            for p in w.instance_problems(si):
                if p[0] == "identifier-left-locked":
                    bad.append(("C08:identifier-left-locked", p[1:]))
        # follow-up calls on the identifiers involved must complete without blocking
        for c, s in [(c, si) for c in program for si in insts]:
            i = getattr(c, "i", None)
            if i is None:
                continue
            pid = w.pids[i]
            for name, fn in (("store_metadata", lambda: s.store_metadata(pid, "/src/d0")),
                             ("delete_object", lambda: s.delete_object(pid)),
                             ("store_object", lambda: s.store_object(pid, "/src/c0")),
                             ("delete_metadata", lambda: s.delete_metadata(pid))):
                try:
                    fn()
                except RuntimeError as e:
                    if "wait()" in str(e):
                        bad.append(("C08:follow-up-%s-blocked" % name, pid))
                except Exception:   # noqa
                    pass
    rec = dict(res=res, status=status, bad=bad, log=list(sc.log), steps=len(sc.log), points=sc.points,
               preemptions=sc.preempt, fault=fault["hit"])
    return rec


def explore_scenarios(w_args, scenarios_fn, bound, procs=None, mp=False, with_fault=False):
    """scenarios_fn(world) -> list of (name, init dict, [calls]).  One worker per scenario."""
    # multiprocessing mode: each scheduled thread stands for a forked process, so threading primitives are process-local
    a = dict(w_args, threading_mod=sched.fthreading_proclocal if mp else sched.fthreading,
             multiprocessing_mod=sched.fmultiprocessing, sym_dirs=True, mp=mp)
    w0 = World(**a)
    names = [sc[0] for sc in scenarios_fn(w0)]
    NSPLIT = 8 if with_fault else 1      # a faulted scenario is split over workers by the residue of the fault index

    def worker(job):
        k, part = job
        w = World(**a)
        name, init, program, *rest = scenarios_fn(w)[k]
        opts = rest[0] if rest else {}
        allowed = sequential_outcomes(w, init, program) if not with_fault and opts.get("instances", 1) < 2 else {}
        tsp = z3.Int("fault_split")
        ps = PathSym(w.inv() + ([FAULTV >= 0, tsp >= 0, FAULTV == part + NSPLIT * tsp] if with_fault else []))
        recs = ps.explore(lambda p: run_schedule(p, w, init, program, bound, allowed, with_fault=with_fault, opts=opts))
        w.cleanup()
        st = ps.st.as_dict()
        bad = {}
        for r in recs:
            for b in r["bad"]:
                key = (b[0], str(b[1:])[:300])
                if key not in bad:
                    bad[key] = dict(count=0, log=r["log"], res=r["res"], preemptions=r["preemptions"], detail=b[1:],
                                    fault=r.get("fault"))
                bad[key]["count"] += 1
        return dict(name=name, k=k, schedules=len(recs), stats=st, bad=bad, labels=[c.label for c in program],
                    nseq=len(allowed), max_steps=max([r["steps"] for r in recs] or [0]),
                    outcomes=sorted(set(str(r["res"]) for r in recs))[:6])
    outs = par_explore(worker, [(k, part) for k in range(len(names)) for part in range(NSPLIT)], procs)
    if NSPLIT == 1:
        return outs
    merged = {}
    for o in outs:
        m = merged.get(o["k"])
        if m is None:
            merged[o["k"]] = o
            continue
        m["schedules"] += o["schedules"]
        for kk in ("paths", "solver_queries", "validity_queries", "solver_s", "infeasible_prefixes"):
            m["stats"][kk] = m["stats"].get(kk, 0) + o["stats"].get(kk, 0)
        m["stats"]["exhausted"] = m["stats"].get("exhausted", True) and o["stats"].get("exhausted", True)
        for key, b in o["bad"].items():
            if key in m["bad"]:
                m["bad"][key]["count"] += b["count"]
            else:
                m["bad"][key] = b
        m["max_steps"] = max(m["max_steps"], o["max_steps"])
    return [merged[k] for k in sorted(merged)]


def replay_schedule(w_args, scenarios_fn, k, log, bound, want_prefix, mp=False, fault_at=None):
    a = dict(w_args, threading_mod=sched.fthreading_proclocal if mp else sched.fthreading,
             multiprocessing_mod=sched.fmultiprocessing, sym_dirs=True, mode="passthrough", mp=mp)
    w = World(**a)
    try:
        name, init, program, *rest = scenarios_fn(w)[k]
        opts = rest[0] if rest else {}
        # sequential outcomes on the real file system too
        allowed = sequential_outcomes(w, init, program) if fault_at is None and opts.get("instances", 1) < 2 else {}
        ps = PathSym(w.inv())
        ps.begin()
        rec = run_schedule(ps, w, init, program, bound, allowed, pinned=list(log), with_fault=fault_at is not None,
                           pinned_fault=fault_at, opts=opts)
        hit = [b for b in rec["bad"] if b[0].startswith(want_prefix)]
        return bool(hit), ("passthrough replay on the real file system: scenario %s, calls %s in real threads under "
                           "the recorded schedule %s%s -> results %s; failing: %s" % (
                               name, [c.label for c in program], "".join(map(str, log)),
                               "" if fault_at is None else " with EIO injected at file-system operation %d" % fault_at,
                               rec["res"], rec["bad"]))
    finally:
        w.cleanup()
