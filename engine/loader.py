"""Load the *current* source of the code under test from /repo (or $HASHSTORE_REPO) afresh under private module
names.  Nothing is cached between runs; optional in-memory source mutation for the self-tests (never on disk)."""
import os
import sys
import types
import hashlib

REPO = os.environ.get("HASHSTORE_REPO", "/repo")
SRC = os.path.join(REPO, "src")
PKG = os.path.join(SRC, "hashstore")

_counter = [0]


def ensure_package():
    """Make `import hashstore` resolve to the working tree (the loaded copies import their base class and the
    exception classes from it)."""
    if SRC not in sys.path or sys.path[0] != SRC:
        if SRC in sys.path:
            sys.path.remove(SRC)
        sys.path.insert(0, SRC)
    for name in [n for n in sys.modules if n == "hashstore" or n.startswith("hashstore.")]:
        f = getattr(sys.modules[name], "__file__", "") or ""
        if not f.startswith(PKG):
            del sys.modules[name]
    import hashstore  # noqa
    assert hashstore.__file__.startswith(PKG), hashstore.__file__
    if os.environ.get("HASHSTORE_VERIF_MUTATE_EXC"):
        pass
    return hashstore


def source_of(fname):
    with open(os.path.join(PKG, fname), encoding="utf8") as f:
        return f.read()


def source_digest():
    h = hashlib.sha256()
    for fn in sorted(os.listdir(PKG)):
        if fn.endswith(".py"):
            h.update(fn.encode())
            h.update(source_of(fn).encode())
    return h.hexdigest()[:16]


def load(fname="filehashstore.py", mutate=None, modname=None):
    """Compile PKG/fname into a fresh module.  mutate = list of (old, new) exact-once source replacements."""
    ensure_package()
    src = source_of(fname)
    if mutate is None and os.environ.get("HSVERIF_MUTANT"):
        from . import mutants
        m = mutants.selected()
        if m[0] == fname:
            mutate = m[1]
    if mutate:
        for old, new in mutate:
            n = src.count(old)
            if n != 1:
                raise RuntimeError("mutation anchor occurs %d times: %r" % (n, old[:60]))
            src = src.replace(old, new)
    _counter[0] += 1
    name = modname or "hsut_%s_%d" % (fname.replace(".py", ""), _counter[0])
    mod = types.ModuleType(name)
    mod.__file__ = os.path.join(PKG, fname)
    mod.__package__ = "hashstore"
    sys.modules[name] = mod          # dataclasses looks the module up by name
    exec(compile(src, mod.__file__, "exec"), mod.__dict__)
    return mod


def function_lines(mod, qualnames):
    """[(qualname, first_line, last_line)] for evidence."""
    import inspect
    out = []
    for qn in qualnames:
        obj = mod
        try:
            for part in qn.split("."):
                obj = getattr(obj, part)
            obj = inspect.unwrap(getattr(obj, "__func__", obj))
            code = obj.__code__
            lines = [ln for (_, _, ln) in code.co_lines() if ln]
            out.append("%s:%d-%d" % (qn, code.co_firstlineno, max(lines)))
        except Exception:
            out.append("%s:?" % qn)
    return out
