"""Single-threaded stand-ins for the threading / multiprocessing primitives: a sequential harness has nobody who
could end a wait(), so blocking raises WouldBlock instead of hanging the check."""
import types as _types


class WouldBlock(Exception):
    """a wait() with nobody left to notify: the identifier stayed locked"""


class SeqLock:
    def __init__(self):
        self.held = False

    def acquire(self, blocking=True, timeout=-1):
        if self.held:
            raise WouldBlock("lock already held in a single-threaded run")
        self.held = True
        return True

    def release(self):
        self.held = False

    def __enter__(self):
        self.acquire()
        return self

    def __exit__(self, *a):
        self.release()

    def locked(self):
        return self.held


class SeqCondition:
    def __init__(self, lock=None):
        self.lock = lock or SeqLock()

    def __enter__(self):
        self.lock.acquire()
        return self

    def __exit__(self, *a):
        self.lock.release()

    def wait(self, timeout=None):
        raise WouldBlock("wait() with no other thread: identifier left locked")

    def notify(self, n=1):
        pass

    def notify_all(self):
        pass


class _Mgr:
    def list(self, *a):
        return list(*a)


SEQ_THREADING = _types.SimpleNamespace(Lock=SeqLock, Condition=SeqCondition, RLock=SeqLock)
SEQ_MULTIPROCESSING = _types.SimpleNamespace(Lock=SeqLock, Condition=SeqCondition, Manager=lambda: _Mgr())


