"""Universe, symbolic abstract store state, representation invariant, abstraction function and reference model.

World(mode="model")  : the code under test runs over symfs.ModelBackend with *symbolic* pre-state entries.
World(mode="native") : the code under test is loaded unpatched and runs on the real file system below a scratch
                       directory; the pre-state (pinned by assumptions) is constructed by an API history.
The same harness code runs in both modes: in native mode every state variable is pinned, so every decide()/choose()
has one feasible value and every valid() is a ground evaluation.
"""
import copy
import hashlib
import itertools
import math
import os
import posixpath
import shutil
import tempfile
import z3

from . import symfs, loader

FIVE = ["md5", "sha1", "sha256", "sha384", "sha512"]
D1ALGO = {"MD5": "md5", "SHA-1": "sha1", "SHA-256": "sha256", "SHA-384": "sha384", "SHA-512": "sha512"}
LOCK_LISTS = ["object_locked_pids", "object_locked_cids", "reference_locked_pids", "metadata_locked_docs"]


class EngineError(Exception):
    pass


class LearnFailed(EngineError):
    """one of the plain calls by which the addresses are observed on an empty store failed or left other files than
    expected: reported as a violation (after native confirmation), not as an engine error"""

    def __init__(self, what):
        EngineError.__init__(self, "observation call failed: %r" % (what,))
        self.what = what


class HistoryFailed(EngineError):
    """native mode: one of the plain calls that build the pre-state raised"""

    def __init__(self, hist, call, exc):
        EngineError.__init__(self, "%s raised %s: %s after %s" % (call, type(exc).__name__, str(exc)[:120], hist))
        self.hist, self.call, self.exc = hist, call, exc


class Aliasing(EngineError):
    """two distinct identifiers of the universe were observed at the same address"""
    def __init__(self, text, what):
        super().__init__(text)
        self.what = what


def scratch_root():
    base = os.environ.get("TMPDIR", "/tmp")
    d = tempfile.mkdtemp(prefix="hsverif.", dir=base)
    return d


# Contents and metadata documents are opaque bytes to the store; the default ones carry the bytes that text-mode or
# string handling would damage: CR, CR LF, a byte sequence that is not UTF-8, NULs, and a last block (4 bytes in the
# model) that is all NUL.
C_ONE = b"\r"
C_MULTI = b"01\r\n\xe9\x00\x00\x00\x00\x00\x00\x00"
D_ONE = b"<v0>\r"
D_MULTI = b"<v1>\r\n\xe9\x00\x00\x00\x00\x00\x00"
D_ONE_ALT = b"<v2>\r"          # another document of exactly the length of D_ONE
D_MULTI15 = b"<v1>\r\n\xe9\x00\x00\x00\x00\x00\x00\x00\x00"


class World:
    def __init__(self, pids, contents, formats=(None,), docs=(D_ONE, D_MULTI), algorithm="SHA-256",
                 depth=3, width=2, ns="ns", blksize=4, mode="model", fake_cid=True, sym_dirs=True,
                 mutate=None, mp=False, threading_mod=None, multiprocessing_mod=None):
        self.mode = mode
        self.pids = list(pids)
        self.contents = list(contents)
        self.formats = list(formats)          # format *arguments*; None = default namespace
        self.docs = list(docs)
        self.algorithm = algorithm
        self.halgo = D1ALGO[algorithm]
        self.ns = ns
        self.depth, self.width = depth, width
        self.blksize = blksize
        self.sym_dirs = sym_dirs
        self.mp = mp
        self.NP, self.NK, self.ND = len(self.pids), len(self.contents), len(self.docs)
        self.real_cids = [hashlib.new(self.halgo, c).hexdigest() for c in self.contents]
        self.cids = list(self.real_cids)
        if fake_cid:
            # a cid that was never stored: the upper-case spelling of a real digest (a different identifier for the
            # store, which shards cids as supplied), or all 'f' when the digest has no letters
            up = self.real_cids[0].upper() if self.real_cids else "f" * 64
            if fake_cid == "long":
                # ... or a string longer than any digest (tag_object takes any identifier as cid)
                up = (up + "0123456789abcdef" * 16)[:200]
            self.cids.append(up if up not in self.real_cids else "f" * len(up))
        self.NC = len(self.cids)
        self.fake = self.NC - 1 if fake_cid else None
        # distinct metadata cells per pid: effective format string
        self.eff = []
        for f in self.formats:
            e = ns if f is None else f
            if e not in self.eff:
                self.eff.append(e)
        self.NF = len(self.eff)
        self.mutate = mutate
        self.extra_globals = {}
        if threading_mod is None and multiprocessing_mod is None:
            # sequential harnesses: a wait() that nobody can end raises WouldBlock instead of hanging the check
            from . import seqsync
            threading_mod, multiprocessing_mod = seqsync.SEQ_THREADING, seqsync.SEQ_MULTIPROCESSING
        if threading_mod is not None:
            self.extra_globals["threading"] = threading_mod
        if multiprocessing_mod is not None:
            self.extra_globals["multiprocessing"] = multiprocessing_mod
        self.scratch = None
        self._learn()
        self._mkvars()
        if mode == "native":
            self._native_setup()

    # ------------------------------------------------------------------ set-up
    def props(self, root):
        return dict(store_path=root, store_depth=self.depth, store_width=self.width,
                    store_algorithm=self.algorithm, store_metadata_namespace=self.ns)

    def cell(self, f):
        return self.eff.index(self.ns if f is None else f)

    def _fresh_model_fs(self):
        F = symfs.FS(symfs.ModelBackend(), blksize=self.blksize)
        F.b.dirs["/src"] = True
        F.b.dirs["/tmp"] = True          # the system's temp directory (possibly another file system)
        for k, c in enumerate(self.contents):
            F.b.create("/src/c%d" % k, c)
        for v, d in enumerate(self.docs):
            F.b.create("/src/d%d" % v, d)
        return F

    def _learn(self):
        """Run the real code concretely on an empty model store and observe where things go."""
        self.M = loader.load("filehashstore.py", mutate=self.mutate)
        self.shim = symfs.Shim()
        self.shim.install(self.M, self.extra_globals)
        self.X = {n: getattr(self.M, n) for n in dir(self.M)
                  if isinstance(getattr(self.M, n), type) and issubclass(getattr(self.M, n), Exception)}
        # a write to an attribute of the store instance is a scheduling point for the cooperative scheduler (real
        # threads may be preempted between any two of them); no effect outside scheduled threads
        from . import sched as _sched

        def _setattr(obj, k, v, _orig=object.__setattr__):
            _orig(obj, k, v)
            sc = _sched.CUR[0]
            if sc is not None and sc.me() is not None and not sc.me().kill:
                sc.point("setattr", k)
        self.M.FileHashStore.__setattr__ = _setattr
        F0 = self._fresh_model_fs()
        self.shim.fs = F0
        S0 = self.M.FileHashStore(self.props("/s"))
        self.F0 = F0
        self.S0 = S0
        self.defaults = list(S0.default_algo_list)
        base = F0.b.snapshot("/s")
        self.PIDREF, self.CIDREF, self.OBJ = [None] * self.NP, [None] * self.NC, [None] * self.NC
        self.META = [[None] * self.NF for _ in range(self.NP)]

        def trial():
            F = symfs.FS(F0.b.clone_concrete(), blksize=self.blksize)
            F.env = dict(F0.env)
            self.shim.fs = F
            return F, self.instance()

        def observe(api, args, fn):
            try:
                return fn()
            except symfs.Crash:
                raise
            except Exception as e:   # noqa
                raise LearnFailed(dict(api=api, args=args, outcome="%s: %s" % (type(e).__name__, str(e)[:160])))

        for k in range(self.NK):
            F, s = trial()
            om = observe("store_object", [None, k], lambda: s.store_object(None, "/src/c%d" % k))
            if om.cid != self.real_cids[k]:
                raise LearnFailed(dict(api="store_object", args=[None, k], outcome="cid is not the digest: %s" % om.cid))
            new = [p for p in F.b.snapshot("/s") if p not in base]
            if len(new) != 1:
                raise LearnFailed(dict(api="store_object", args=[None, k], outcome="created %d files" % len(new)))
            self.OBJ[k] = new[0]
        for i, p in enumerate(self.pids):
            F, s = trial()
            j = 0
            observe("tag_object", [p, self.cids[j]], lambda: s.tag_object(p, self.cids[j]))
            snap = F.b.snapshot("/s")
            new = [q for q in snap if q not in base]
            pr = [q for q in new if snap[q] == self.cids[j].encode()]
            cr = [q for q in new if snap[q] == (p + "\n").encode()]
            if len(new) != 2 or len(pr) != 1 or len(cr) != 1:
                raise LearnFailed(dict(api="tag_object", args=[p, self.cids[j]], outcome=(
                    "created %d files" % len(new)) if len(new) != 2 else "reference files hold %r" % sorted(snap[q] for q in new)))
            self.PIDREF[i] = pr[0]
            if self.CIDREF[j] is None:
                self.CIDREF[j] = cr[0]
        for j in range(1, self.NC):
            F, s = trial()
            observe("tag_object", [self.pids[0], self.cids[j]], lambda: s.tag_object(self.pids[0], self.cids[j]))
            snap = F.b.snapshot("/s")
            cr = [q for q in snap if q not in base and q != self.PIDREF[0]]
            if len(cr) != 1:
                raise LearnFailed(dict(api="tag_object", args=[self.pids[0], self.cids[j]],
                                       outcome="created %d files" % (len(cr) + 1)))
            self.CIDREF[j] = cr[0]
        for i, p in enumerate(self.pids):
            for fi, e in enumerate(self.eff):
                F, s = trial()
                arg = None if e == self.ns and None in self.formats else e
                ret = observe("store_metadata", [p, arg], lambda: s.store_metadata(p, "/src/d0", arg))
                new = [q for q in F.b.snapshot("/s") if q not in base]
                if len(new) != 1:
                    raise LearnFailed(dict(api="store_metadata", args=[p, arg], outcome="created %d files" % len(new)))
                self.META[i][fi] = new[0]
        allp = self.PIDREF + self.CIDREF + [o for o in self.OBJ if o] + [m for r in self.META for m in r]
        if len(set(allp)) != len(allp):
            names = {}
            for i, pth in enumerate(self.PIDREF):
                names.setdefault(pth, []).append(("pid", self.pids[i]))
            for j, pth in enumerate(self.CIDREF):
                names.setdefault(pth, []).append(("cid", self.cids[j]))
            for i in range(self.NP):
                for f in range(self.NF):
                    names.setdefault(self.META[i][f], []).append(("pid,format", self.pids[i], self.eff[f]))
            dup = [v for v in names.values() if len(v) > 1]
            raise Aliasing("learned addresses collide: distinct identifiers alias", dup[:3])
        self.shim.fs = F0
        if self.mp:
            # the layout was learned in the default mode; the instance under test is initialised with the variable set
            F0.env["USE_MULTIPROCESSING"] = "True"
            self.S0 = self.M.FileHashStore(self.props("/s"))
        # directory chains: every ancestor below the store's sub-roots
        self.chains = {}
        for path in allp:
            d = posixpath.dirname(path)
            self.chains.setdefault(d, None)
        self.known_dirs = set(F0.b.all_dirs("/"))

    def _mkvars(self):
        B, I = z3.Bool, z3.Int
        self.bind = [I("bind_%d" % i) for i in range(self.NP)]
        self.obj = [B("obj_%d" % j) for j in range(self.NC)]
        self.ordv = [I("ord_%d" % j) for j in range(self.NC)]
        self.meta = [[I("meta_%d_%d" % (i, f)) for f in range(self.NF)] for i in range(self.NP)]
        self.dirv = {d: B("dir_%d" % n) for n, d in enumerate(sorted(self.chains))}
        # the environment: does the file system under the store support hard links? (decided when os.link is called)
        self.linkv = B("fs_hard_links")
        # ... are the store's sub-trees, the temp directory and the caller's files on one file system? (decided at the
        # first rename or link that crosses between them) ... is debug logging enabled? (decided when the code asks)
        self.xdevv = B("fs_separate_file_systems")
        self.logv = B("env_debug_logging")
        self.locv = B("env_locale_is_utf8")
        self.statevars = self.bind + self.obj + self.ordv + [m for r in self.meta for m in r] + \
            [self.dirv[d] for d in sorted(self.dirv)] + [self.linkv, self.xdevv, self.logv, self.locv]

    def inv(self, allow_missing_obj=True):
        c = []
        for b in self.bind:
            c.append(z3.And(b >= -1, b < self.NC))
        if self.fake is not None:
            c.append(z3.Not(self.obj[self.fake]))
        for o in self.ordv:
            c.append(z3.And(o >= 0, o < math.factorial(self.NP)))
        for r in self.meta:
            for m in r:
                c.append(z3.And(m >= -1, m < self.ND))
        if not allow_missing_obj:
            for i in range(self.NP):
                for j in range(self.NC):
                    c.append(z3.Implies(self.bind[i] == j, self.obj[j]))
        # file => its directory chain
        dv = self.dirv
        for i in range(self.NP):
            c.append(z3.Implies(self.bind[i] >= 0, dv[posixpath.dirname(self.PIDREF[i])]))
            for f in range(self.NF):
                c.append(z3.Implies(self.meta[i][f] >= 0, dv[posixpath.dirname(self.META[i][f])]))
        for j in range(self.NC):
            c.append(z3.Implies(z3.Or([b == j for b in self.bind]), dv[posixpath.dirname(self.CIDREF[j])]))
            if self.OBJ[j]:
                c.append(z3.Implies(self.obj[j], dv[posixpath.dirname(self.OBJ[j])]))
        if not self.sym_dirs:
            c += [dv[d] for d in dv]
        elif self.sym_dirs == "tied":
            ds = [dv[d] for d in sorted(dv)]
            c += [ds[0] == x for x in ds[1:]]      # either every shard directory exists or none (empty store)
        return c

    # ------------------------------------------------------------------ per path
    def instance(self, S0=None):
        S0 = S0 or self.S0
        s = copy.copy(S0)
        # per-path isolation: plain containers held by the instance are copied, synchronisation objects shared
        for k, v in list(S0.__dict__.items()):
            if isinstance(v, (dict, list, set)):
                setattr(s, k, copy.deepcopy(v))
        s.default_algo_list = list(self.defaults)
        for n in LOCK_LISTS:
            for suf in ("_th", "_mp"):
                if hasattr(S0, n + suf):
                    setattr(s, n + suf, [])
        return s

    def real_instances(self, n):
        """n store instances made by the real constructor on the existing store (once per World), reset in place for
        every execution: whatever the constructor shares between instances stays shared, nothing else is"""
        if not hasattr(self, "_real"):
            saved = self.shim.fs
            self._real = []
            for _ in range(n):
                F = symfs.FS(self.F0.b.clone_concrete(), blksize=self.blksize)
                F.env = dict(self.F0.env)
                self.shim.fs = F
                self._real.append(self.M.FileHashStore(self.props("/s")))
            self.shim.fs = saved
        from . import sched
        for s in self._real:
            for nm in LOCK_LISTS:
                for suf in ("_th", "_mp"):
                    v = getattr(s, nm + suf, None)
                    if v is not None:
                        del v[:]
            s.default_algo_list[:] = self.defaults
            sched.reset_primitives(s)
        return self._real[:n]

    def members_term(self, j):
        return [self.bind[i] == j for i in range(self.NP)]

    def build(self, ps):
        """Fresh FS with symbolic pre-state for one path (model mode) / scratch store built by history (native)."""
        self.ps = ps
        if self.mode == "native":
            return self._native_build(ps)
        if self.mode == "passthrough":
            return self._passthrough_build(ps)
        b = symfs.ModelBackend(ps.decide)
        b.files = dict(self.F0.b.files)
        b.dirs = dict(self.F0.b.dirs)
        NP, NC = self.NP, self.NC
        for d, v in self.dirv.items():
            parts = d.split("/")
            for n in range(2, len(parts) + 1):
                anc = "/".join(parts[:n])
                if anc in self.known_dirs:
                    continue
                cur = b.dirs.get(anc)
                if cur is True:
                    continue
                b.dirs[anc] = v if cur is None else z3.Or(cur, v)
        for i in range(NP):
            b.files[self.PIDREF[i]] = symfs.Ent(
                self.bind[i] >= 0, (lambda i=i: self.cids[ps.choose(self.bind[i], 0, NC)].encode()), ("pidref", i))
        for j in range(NC):
            def lines(j=j):
                mem = [i for i in range(NP) if ps.decide(self.bind[i] == j)]
                ps.constrain(self.ordv[j] < math.factorial(len(mem)))
                r = ps.choose(self.ordv[j], 0, math.factorial(len(mem)))
                perm = list(itertools.permutations(mem))[r]
                return "".join(self.pids[i] + "\n" for i in perm).encode()
            b.files[self.CIDREF[j]] = symfs.Ent(z3.Or(self.members_term(j)), lines, ("cidref", j))
            if self.OBJ[j]:
                b.files[self.OBJ[j]] = symfs.Ent(self.obj[j], self.contents[j], ("obj", j))
        for i in range(NP):
            for f in range(self.NF):
                b.files[self.META[i][f]] = symfs.Ent(
                    self.meta[i][f] >= 0, (lambda i=i, f=f: self.docs[ps.choose(self.meta[i][f], 0, self.ND)]),
                    ("meta", i, f))
        F = symfs.FS(b, blksize=self.blksize)
        F.env = dict(self.F0.env)
        F.hardlinks = lambda: ps.decide(self.linkv)
        F.crossfs = lambda: ps.decide(self.xdevv)
        F.logdebug = lambda: ps.decide(self.logv)
        F.locale_utf8 = lambda: ps.decide(self.locv)
        self.initial = dict(b.files)
        self.initial_dirs = dict(b.dirs)
        self.F = F
        self.shim.fs = F
        return F

    def src(self, k):
        return (self.scratch + "/src/c%d" % k) if self.mode == "native" else "/src/c%d" % k

    def docsrc(self, v):
        return (self.scratch + "/src/d%d" % v) if self.mode == "native" else "/src/d%d" % v

    def root(self):
        return (self.scratch + "/s") if self.mode == "native" else "/s"

    # ------------------------------------------------------------------ native mode
    def _native_setup(self):
        import logging
        logging.disable(logging.CRITICAL)       # the unpatched code logs to stderr; keep the check's output clean
        self.MN = loader.load("filehashstore.py", mutate=self.mutate)   # unpatched copy: real os, real everything
        self.XN = {n: getattr(self.MN, n) for n in dir(self.MN)
                   if isinstance(getattr(self.MN, n), type) and issubclass(getattr(self.MN, n), Exception)}

    def _native_build(self, ps):
        self.cleanup()
        self.scratch = scratch_root()
        os.makedirs(self.scratch + "/src")
        # the model's working directory is "/": relative paths (an identifier may look like one) mean the same files
        self._cwd0 = os.getcwd()
        os.chdir(self.scratch)
        for k, c in enumerate(self.contents):
            with open(self.src(k), "wb") as f:
                f.write(c)
        for v, d in enumerate(self.docs):
            with open(self.docsrc(v), "wb") as f:
                f.write(d)
        os.environ.pop("USE_MULTIPROCESSING", None)       # the history is built in the default mode
        s = self.MN.FileHashStore(self.props(self.root()))
        hist = []
        bindv = [ps.choose(self.bind[i], -1, self.NC) for i in range(self.NP)]
        def api(label, fn):
            try:
                fn()
            except Exception as e:   # noqa
                raise HistoryFailed(list(hist), label, e)
            hist.append(label)
        for j in range(self.NC):
            if self.OBJ[j] and ps.decide(self.obj[j]):
                api("store_object(None, c%d)" % j, lambda: s.store_object(None, self.src(j)))
        for j in range(self.NC):
            mem = [i for i in range(self.NP) if bindv[i] == j]
            if mem:
                ps.constrain(self.ordv[j] < math.factorial(len(mem)))
                r = ps.choose(self.ordv[j], 0, math.factorial(len(mem)))
                for i in list(itertools.permutations(mem))[r]:
                    api("tag_object(%r, cid%d)" % (self.pids[i], j), lambda: s.tag_object(self.pids[i], self.cids[j]))
        for i in range(self.NP):
            for f in range(self.NF):
                v = ps.choose(self.meta[i][f], -1, self.ND)
                if v >= 0:
                    api("store_metadata(%r, d%d, %r)" % (self.pids[i], v, self.eff[f]),
                        lambda: s.store_metadata(self.pids[i], self.docsrc(v), self.eff[f]))
        for d, v in self.dirv.items():
            if ps.decide(v):
                os.makedirs(self.scratch + d, exist_ok=True)
        self.history = hist
        self.nb = symfs.RealBackend(self.scratch)
        self._native_environment(ps)
        if self.mp:
            os.environ["USE_MULTIPROCESSING"] = "True"
        try:
            self.native_store = self.MN.FileHashStore(self.props(self.root()))
        finally:
            os.environ.pop("USE_MULTIPROCESSING", None)
        self.F = None
        return None

    def _native_environment(self, ps):
        """the environment variables of the model, imposed on the real process for the call under test (replays run in
        a forked child, so nothing has to be undone): a file system without hard links, sub-trees on separate file
        systems (rename / link across them: EXDEV), debug logging enabled"""
        import errno
        import logging
        root = self.root()

        def area(p):
            p = os.path.abspath(os.fspath(p))
            if p.startswith(root + "/"):
                return root + "/" + p[len(root) + 1:].split("/")[0]
            return "outside:" + (p[len(self.scratch) + 1:].split("/")[0] if p.startswith(self.scratch + "/") else "/")
        nolink = not ps.decide(self.linkv)
        xdev = ps.decide(self.xdevv)
        if nolink or xdev:
            real = dict(rename=os.rename, replace=os.replace, link=os.link)

            def guard(name):
                def f(src, dst, *a, **k):
                    if name == "link" and nolink:
                        raise PermissionError(errno.EPERM, "Operation not permitted (no hard links: imposed)", src)
                    if xdev and area(src) != area(dst):
                        raise OSError(errno.EXDEV, "Invalid cross-device link (imposed)", src)
                    return real[name](src, dst, *a, **k)
                return f
            for n in real:
                setattr(os, n, guard(n))
        if ps.decide(self.logv):
            logging.disable(logging.NOTSET)
            rootlog = logging.getLogger()
            rootlog.handlers[:] = [logging.NullHandler()]
            rootlog.setLevel(logging.DEBUG)

    def native_escapes(self):
        """native mode: files created outside the store root, or inside it at a location that is not hash-derived"""
        import re
        ok = re.compile(r"^/s/(hashstore\.yaml|(objects|metadata|refs/pids)(/[0-9a-f]+)+(_delete)?|"
                        r"refs/cids(/[0-9a-fA-F]+)+(_delete)?|"
                        r"(objects|metadata|refs)/tmp/[^/]+)$")
        out = []
        for k in self.nb.snapshot("/"):
            if k.startswith("/src/"):
                continue
            if not ok.match(k):
                out.append(k)
        return out

    def _passthrough_build(self, ps):
        """Same shimmed module as the model, but over the real OS below a scratch root; the (pinned) pre-state is
        constructed by an API history, extra directories by mkdir."""
        self.cleanup()
        self.scratch = scratch_root()
        rb = symfs.RealBackend(self.scratch)
        F = symfs.FS(rb, blksize=self.blksize)
        F.env = dict(self.F0.env)
        self.shim.fs = F
        rb.mkdir1("/src")
        rb.mkdir1("/tmp")
        for k, c in enumerate(self.contents):
            rb.create("/src/c%d" % k, c)
        for v, d in enumerate(self.docs):
            rb.create("/src/d%d" % v, d)
        F.env.pop("USE_MULTIPROCESSING", None)      # the history is built in the default mode
        s = self.M.FileHashStore(self.props("/s"))
        hist = []
        bindv = [ps.choose(self.bind[i], -1, self.NC) for i in range(self.NP)]
        for j in range(self.NC):
            if self.OBJ[j] and ps.decide(self.obj[j]):
                s.store_object(None, "/src/c%d" % j)
                hist.append("store_object(None, c%d)" % j)
        for j in range(self.NC):
            mem = [i for i in range(self.NP) if bindv[i] == j]
            if mem:
                ps.constrain(self.ordv[j] < math.factorial(len(mem)))
                r = ps.choose(self.ordv[j], 0, math.factorial(len(mem)))
                for i in list(itertools.permutations(mem))[r]:
                    s.tag_object(self.pids[i], self.cids[j])
                    hist.append("tag_object(%r, cid%d)" % (self.pids[i], j))
        for i in range(self.NP):
            for f in range(self.NF):
                v = ps.choose(self.meta[i][f], -1, self.ND)
                if v >= 0:
                    s.store_metadata(self.pids[i], "/src/d%d" % v, self.eff[f])
                    hist.append("store_metadata(%r, d%d, %r)" % (self.pids[i], v, self.eff[f]))
        for d, v in self.dirv.items():
            if ps.decide(v):
                os.makedirs(self.scratch + d, exist_ok=True)
        self.history = hist
        F2 = symfs.FS(rb, blksize=self.blksize)     # fresh counters for the call under test
        F2.env = dict(self.F0.env)
        F2.hardlinks = lambda: ps.decide(self.linkv)
        F2.crossfs = lambda: ps.decide(self.xdevv)
        F2.logdebug = lambda: ps.decide(self.logv)
        F2.locale_utf8 = lambda: ps.decide(self.locv)
        self.shim.fs = F2
        self.F = F2
        self.initial = {}
        return F2

    def cleanup(self):
        if getattr(self, "_cwd0", None):
            os.chdir(self._cwd0)
            self._cwd0 = None
        if self.scratch and os.path.isdir(self.scratch):
            shutil.rmtree(self.scratch, ignore_errors=True)
        self.scratch = None

    def store(self):
        if self.mode == "native":
            return self.native_store
        return self.instance()

    def exc(self, name):
        return (self.XN if self.mode == "native" else self.X)[name]

    def module(self):
        return self.MN if self.mode == "native" else self.M

    # ------------------------------------------------------------------ abstraction of the post-state
    def _backend(self):
        return self.nb if self.mode == "native" else self.F.b

    def _untouched(self, path):
        if self.mode != "model":
            return False
        return self.F.b.files.get(path) is self.initial.get(path)

    def post(self):
        """Abstract post-state: original variables where untouched, constants where touched; plus problems."""
        b = self._backend()
        NP, NC = self.NP, self.NC
        problems = []
        bind2 = []
        for i in range(NP):
            path = self.PIDREF[i]
            if self._untouched(path):
                bind2.append(self.bind[i])
            elif not b.isfile(path):
                bind2.append(z3.IntVal(-1))
            else:
                c = b.read(path).decode("utf8", "replace")
                if c in self.cids:
                    bind2.append(z3.IntVal(self.cids.index(c)))
                else:
                    bind2.append(z3.IntVal(99))
                    problems.append(("pid-ref-garbled", self.pids[i], c[:80]))
        mem2 = [[None] * NP for _ in range(NC)]
        lex2 = []
        for j in range(NC):
            path = self.CIDREF[j]
            if self._untouched(path):
                for i in range(NP):
                    mem2[j][i] = (self.bind[i] == j)
                lex2.append(z3.Or(self.members_term(j)))
            else:
                ex = b.isfile(path)
                raw = b.read(path).decode("utf8", "replace") if ex else ""
                ls = raw.splitlines()
                for i in range(NP):
                    n = ls.count(self.pids[i])
                    if n > 1:
                        problems.append(("dup-line", self.pids[i], j))
                    mem2[j][i] = z3.BoolVal(n >= 1)
                if any(ln not in self.pids for ln in ls):
                    problems.append(("foreign-line", raw[:80], j))
                if raw and not raw.endswith("\n"):
                    problems.append(("unterminated-line", raw[:80], j))
                lex2.append(z3.BoolVal(ex))
        obj2 = []
        for j in range(NC):
            path = self.OBJ[j]
            if path is None:
                obj2.append(z3.BoolVal(False))
            elif self._untouched(path):
                obj2.append(self.obj[j])
            else:
                ex = b.isfile(path)
                if ex and b.read(path) != self.contents[j]:
                    problems.append(("object-bytes-changed", j))
                obj2.append(z3.BoolVal(ex))
        meta2 = [[None] * self.NF for _ in range(NP)]
        for i in range(NP):
            for f in range(self.NF):
                path = self.META[i][f]
                if self._untouched(path):
                    meta2[i][f] = self.meta[i][f]
                elif not b.isfile(path):
                    meta2[i][f] = z3.IntVal(-1)
                else:
                    d = b.read(path)
                    if d in self.docs:
                        meta2[i][f] = z3.IntVal(self.docs.index(d))
                    else:
                        meta2[i][f] = z3.IntVal(99)
                        problems.append(("metadata-garbled", self.pids[i], self.eff[f], d[:40]))
        # residue and foreign files
        known = set(self.PIDREF) | set(self.CIDREF) | set(o for o in self.OBJ if o) | \
            set(m for r in self.META for m in r)
        root = "/s"
        if self.mode != "model":
            snap = b.snapshot(root + "/")
        else:
            snap = {k: None for k, e in b.files.items()
                    if k.startswith(root + "/") and k not in known and b.isfile(k)}
        for k in snap:
            if k in known or k == root + "/hashstore.yaml":
                continue
            if "/tmp/" in k:
                problems.append(("tmp-residue", k[len(root):]))
            elif k.endswith("_delete"):
                problems.append(("delete-marker-residue", k[len(root):]))
            else:
                problems.append(("foreign-file", k[len(root):]))
        return dict(bind=bind2, mem=mem2, lex=lex2, obj=obj2, meta=meta2, problems=problems)

    def concrete_state(self):
        """fully concrete abstraction of the current store (forces every lazy decision; use with pinned states)"""
        b = self._backend()
        bind, lists, obj, meta = [], [], [], []
        for i in range(self.NP):
            p = self.PIDREF[i]
            if not b.isfile(p):
                bind.append(-1)
            else:
                c = b.read(p).decode("utf8", "replace")
                bind.append(self.cids.index(c) if c in self.cids else "garbled:" + c[:20])
        for j in range(self.NC):
            p = self.CIDREF[j]
            lists.append(tuple(sorted(b.read(p).decode("utf8", "replace").splitlines())) if b.isfile(p) else None)
            o = self.OBJ[j]
            obj.append(None if o is None else (b.read(o) == self.contents[j] if b.isfile(o) else False))
        for i in range(self.NP):
            row = []
            for f in range(self.NF):
                p = self.META[i][f]
                if not b.isfile(p):
                    row.append(-1)
                else:
                    d = b.read(p)
                    row.append(self.docs.index(d) if d in self.docs else "garbled:" + repr(d[:20]))
            meta.append(tuple(row))
        known = set(self.PIDREF) | set(self.CIDREF) | set(o for o in self.OBJ if o) | \
            set(m for r in self.META for m in r) | {"/s/hashstore.yaml"}
        if self.mode == "model":
            extra = sorted(k[2:] for k in b.files if k.startswith("/s/") and k not in known and b.isfile(k))
        else:
            extra = sorted(k[2:] for k in b.snapshot("/s/") if k not in known)
        extra = [("tmp-file" if "/tmp/" in k else k) for k in extra]
        return (tuple(bind), tuple(lists), tuple(obj), tuple(meta), tuple(extra))

    def pre(self):
        return dict(bind=list(self.bind), mem=[self.members_term(j) for j in range(self.NC)],
                    lex=[z3.Or(self.members_term(j)) for j in range(self.NC)], obj=list(self.obj),
                    meta=[list(r) for r in self.meta], problems=[])

    def inv_post(self, st):
        """C05 exactness on a (post-)state given as terms."""
        cl = []
        for j in range(self.NC):
            for i in range(self.NP):
                cl.append((st["bind"][i] == j) == st["mem"][j][i])
            cl.append(st["lex"][j] == z3.Or(st["mem"][j]))
        for b in st["bind"]:
            cl.append(z3.And(b >= -1, b < self.NC))
        for r in st["meta"]:
            for m in r:
                cl.append(z3.And(m >= -1, m < self.ND))
        if self.fake is not None:
            cl.append(z3.Not(st["obj"][self.fake]))
        return z3.And(cl)

    def state_eq(self, a, b, parts=("bind", "obj", "meta")):
        cl = []
        if "bind" in parts:
            cl += [x == y for x, y in zip(a["bind"], b["bind"])]
        if "obj" in parts:
            cl += [x == y for x, y in zip(a["obj"], b["obj"])]
        if "meta" in parts:
            for ra, rb in zip(a["meta"], b["meta"]):
                cl += [x == y for x, y in zip(ra, rb)]
        return z3.And(cl) if cl else z3.BoolVal(True)

    def instance_problems(self, s):
        out = []
        if list(s.default_algo_list) != self.defaults:
            out.append(("default-algorithm-list-drifted", list(s.default_algo_list)))
        for n in LOCK_LISTS:
            for suf in ("_th", "_mp"):
                v = getattr(s, n + suf, None)
                if v is not None and len(list(v)) != 0:
                    out.append(("identifier-left-locked", n + suf, list(v)))
        return out

    # ------------------------------------------------------------------ reference model (over terms)
    def m_store(self, pre, i, k, invalid=False):
        """store_object(pid_i, content_k[, validation]) -> (cases, post)"""
        post = self._copy(pre)
        if invalid:
            return [(z3.BoolVal(True), "mismatch")], post
        bound = pre["bind"][i] >= 0
        post["bind"][i] = z3.If(bound, pre["bind"][i], z3.IntVal(k))
        post["obj"][k] = z3.BoolVal(True)
        return [(bound, "exists"), (z3.Not(bound), "ok")], post

    def m_store_nopid(self, pre, k):
        post = self._copy(pre)
        post["obj"][k] = z3.BoolVal(True)
        return [(z3.BoolVal(True), "ok")], post

    def m_tag(self, pre, i, j):
        post = self._copy(pre)
        bound = pre["bind"][i] >= 0
        post["bind"][i] = z3.If(bound, pre["bind"][i], z3.IntVal(j))
        return [(bound, "exists"), (z3.Not(bound), "ok")], post

    def m_delete(self, pre, i):
        post = self._copy(pre)
        bound = pre["bind"][i] >= 0
        post["bind"][i] = z3.IntVal(-1)
        for j in range(self.NC):
            last = z3.And(pre["bind"][i] == j,
                          z3.Not(z3.Or([pre["bind"][q] == j for q in range(self.NP) if q != i] + [z3.BoolVal(False)])))
            post["obj"][j] = z3.And(pre["obj"][j], z3.Not(last))
        for f in range(self.NF):
            post["meta"][i][f] = z3.If(bound, z3.IntVal(-1), pre["meta"][i][f])
        return [(bound, "ok"), (z3.Not(bound), "nopid")], post

    def m_delete_if_invalid(self, pre, k, invalid):
        post = self._copy(pre)
        if invalid:
            post["obj"][k] = z3.And(pre["obj"][k], z3.Or([pre["bind"][q] == k for q in range(self.NP)]))
            return [(z3.BoolVal(True), "mismatch")], post
        return [(z3.BoolVal(True), "ok")], post

    def m_store_meta(self, pre, i, v, f):
        post = self._copy(pre)
        post["meta"][i][self.cell(f)] = z3.IntVal(v)
        return [(z3.BoolVal(True), "ok")], post

    def m_delete_meta(self, pre, i, f, all_docs=False):
        post = self._copy(pre)
        if all_docs:
            for c in range(self.NF):
                post["meta"][i][c] = z3.IntVal(-1)
        else:
            post["meta"][i][self.cell(f)] = z3.IntVal(-1)
        return [(z3.BoolVal(True), "ok")], post

    def m_retrieve_meta(self, pre, i, f):
        m = pre["meta"][i][self.cell(f)]
        return [(m >= 0, "ok"), (m < 0, "notfound")], self._copy(pre)

    def m_retrieve(self, pre, i):
        b = pre["bind"][i]
        has = z3.Or([z3.And(b == j, pre["obj"][j]) for j in range(self.NC)])
        return [(z3.And(b >= 0, has), "ok"), (z3.And(b >= 0, z3.Not(has)), "noobj"), (b < 0, "nopid")], self._copy(pre)

    def m_noop(self, pre, cls):
        return [(z3.BoolVal(True), cls)], self._copy(pre)

    @staticmethod
    def _copy(st):
        return dict(bind=list(st["bind"]), mem=None, lex=None, obj=list(st["obj"]),
                    meta=[list(r) for r in st["meta"]], problems=[])

    # ------------------------------------------------------------------ result classification
    def classify(self, exc):
        n = type(exc).__name__
        return {
            "HashStoreRefsAlreadyExists": "exists", "PidRefsAlreadyExistsError": "exists",
            "PidRefsDoesNotExist": "nopid", "RefsFileExistsButCidObjMissing": "noobj",
            "NonMatchingObjSize": "mismatch", "NonMatchingChecksum": "mismatch",
            "UnsupportedAlgorithm": "unsupported", "ValueError": "ValueError", "TypeError": "TypeError",
            "StoreObjectForPidAlreadyInProgress": "inprogress",
        }.get(n, "EXC:" + n)

    def describe_state(self, vals):
        """human-readable pre-state from model values"""
        out = {}
        for i, p in enumerate(self.pids):
            b = vals.get("bind_%d" % i, -1)
            out["pid %r" % p] = "unbound" if b < 0 else "bound to cid%d%s" % (
                b, "" if b == self.fake else " (content %r)" % self.contents[b])
        for j in range(self.NC):
            if j != self.fake:
                out["object cid%d" % j] = "present" if vals.get("obj_%d" % j) else "absent"
        for i, p in enumerate(self.pids):
            for f in range(self.NF):
                v = vals.get("meta_%d_%d" % (i, f), -1)
                if v >= 0:
                    out["metadata (%r,%r)" % (p, self.eff[f])] = "doc v%d" % v
        return out
