r"""pathsym: a z3-backed dynamic symbolic executor for the *environment* of real Python code.

The code under test only ever receives plain Python values; every symbolic value lives in the environment model
(file-system state, crash/fault injector, scheduler, argument selectors).  Exploration is classic DSE with replay:
depth-first over the decision tree, each path re-runs the harness from scratch replaying the decided prefix.

  decide(e)     fork on a z3 Boolean (both sides asked of the solver; infeasible sides are pruned)
  choose(x,l,h) concretise an Int term by successive decide(x == v)
  constrain(e)  narrow fresh variables without branching
  valid(f)      is  pc /\ assumptions => f  (unsat of the negation); else a model
An `unknown` from z3 is never success: it raises SolverUnknown (engine error).
"""
import time
import z3


class NotDeterministic(Exception):
    pass


class SolverUnknown(Exception):
    pass


class Infeasible(BaseException):
    pass


class Stats:
    def __init__(self):
        self.paths = 0
        self.infeasible = 0
        self.queries = 0
        self.solver_s = 0.0
        self.valid_queries = 0
        self.exhausted = True

    def add(self, o):
        self.paths += o.paths
        self.infeasible += o.infeasible
        self.queries += o.queries
        self.solver_s += o.solver_s
        self.valid_queries += o.valid_queries
        self.exhausted = self.exhausted and o.exhausted

    def as_dict(self):
        return dict(paths=self.paths, infeasible_prefixes=self.infeasible, solver_queries=self.queries,
                    validity_queries=self.valid_queries, solver_s=round(self.solver_s, 3), exhausted=self.exhausted)


class PathSym:
    def __init__(self, assumptions=(), timeout_ms=20000):
        self.assumptions = list(assumptions)
        self.solver = z3.Solver()
        self.solver.set("timeout", timeout_ms)
        self.plan = []
        self.trail = []
        self.st = Stats()

    # ---- solver plumbing
    def _check(self, *extra):
        t = time.perf_counter()
        self.st.queries += 1
        r = self.solver.check(*extra)
        self.st.solver_s += time.perf_counter() - t
        if r == z3.unknown:
            raise SolverUnknown(self.solver.reason_unknown())
        return r == z3.sat

    def begin(self):
        self.solver.reset()
        for a in self.assumptions:
            self.solver.add(a)
        self.trail = []

    # ---- API for harnesses / environment
    def decide(self, e):
        if e is True or e is False:
            return e
        e = z3.simplify(e)
        if z3.is_true(e):
            return True
        if z3.is_false(e):
            return False
        i = len(self.trail)
        if i < len(self.plan):
            pe, val, both = self.plan[i]
            if not pe.eq(e):
                raise NotDeterministic("replay diverged at decision %d: %s vs %s" % (i, pe, e))
        else:
            ct = self._check(e)
            cf = self._check(z3.Not(e))
            if not ct and not cf:
                raise Infeasible()
            both = ct and cf
            val = ct
        self.trail.append((e, val, both))
        self.solver.add(e if val else z3.Not(e))
        return val

    def assume(self, e):
        if not self.decide(e):
            raise Infeasible()

    def constrain(self, e):
        self.solver.add(e)

    def choose(self, intexpr, lo, hi):
        """concretise an Int term in [lo, hi): linear for small ranges, bisection for large ones"""
        if hi - lo > 8:
            self.constrain(intexpr >= lo)
            self.constrain(intexpr < hi)
            while hi - lo > 1:
                mid = (lo + hi) // 2
                if self.decide(intexpr < mid):
                    hi = mid
                else:
                    lo = mid
            return lo
        for v in range(lo, hi):
            if self.decide(intexpr == v):
                return v
        raise Infeasible()

    def choose_from(self, intexpr, values):
        for v in values:
            if self.decide(intexpr == v):
                return v
        raise Infeasible()

    def valid(self, formula):
        self.st.valid_queries += 1
        if formula is True:
            return True, None
        if formula is False:
            formula = z3.BoolVal(False)
        if self._check(z3.Not(formula)):
            return False, self.solver.model()
        return True, None

    def feasible(self, formula):
        return self._check(formula)

    def model(self):
        if not self._check():
            raise Infeasible()
        return self.solver.model()

    def model_values(self, variables):
        m = self.model()
        out = {}
        for v in variables:
            val = m.eval(v, model_completion=True)
            if z3.is_int_value(val):
                out[str(v)] = val.as_long()
            elif z3.is_true(val):
                out[str(v)] = True
            elif z3.is_false(val):
                out[str(v)] = False
            else:
                out[str(v)] = str(val)
        return out

    # ---- exploration
    def _next_plan(self):
        t = list(self.trail)
        while t:
            e, val, both = t.pop()
            if both and val:
                self.plan = t + [(e, False, False)]
                return True
        return False

    def explore(self, fn, max_paths=10 ** 9, deadline=None):
        out = []
        self.plan = []
        if deadline is None:
            # overall budget of the check (set by the dispatcher): running out is "not exhausted" = exit 2, never ok
            import os
            deadline = float(os.environ.get("HSVERIF_DEADLINE", "0")) or None
        while True:
            self.begin()
            try:
                r = fn(self)
                out.append(r)
                self.st.paths += 1
            except Infeasible:
                self.st.infeasible += 1
            if not self._next_plan():
                break
            if self.st.paths >= max_paths or (deadline is not None and time.time() > deadline):
                self.st.exhausted = False
                break
        return out


def member_of(var, idx):
    """constraint 'var in idx' -- linear when idx is an arithmetic progression (the usual interleaved split)"""
    idx = list(idx)
    if len(idx) > 2:
        k = idx[1] - idx[0]
        if k > 0 and all(b - a == k for a, b in zip(idx, idx[1:])):
            t = z3.Int("split_" + str(var))
            return z3.And(t >= 0, t < len(idx), var == idx[0] + k * t)
    return z3.Or([var == n for n in idx])


_WORKER = [None, None]


class WorkerFailed(Exception):
    pass


def _call_worker(i):
    # a BaseException escaping a pool worker (e.g. Infeasible outside explore()) would hang the pool: turn it into data
    try:
        return ("ok", _WORKER[0](_WORKER[1][i]))
    except BaseException:   # noqa
        import traceback
        return ("err", traceback.format_exc())


def par_explore(worker, splits, procs=None):
    """Run worker(split) for every split in forked processes (the closure is inherited through fork, only the
    results are pickled)."""
    import multiprocessing as mp
    import os
    splits = list(splits)
    procs = procs or min(len(splits), os.cpu_count() or 4)
    if procs <= 1 or len(splits) <= 1:
        return [worker(s) for s in splits]
    _WORKER[0], _WORKER[1] = worker, splits
    ctx = mp.get_context("fork")
    with ctx.Pool(procs) as pool:
        outs = pool.map(_call_worker, range(len(splits)), chunksize=1)
    for tag, val in outs:
        if tag == "err":
            raise WorkerFailed(val)
    return [val for _tag, val in outs]
