"""E1 driver: CrossHair (0.0.110) path exploration of real leaf functions through its library API.

A kernel is a typed Python function  k(args...) -> "skip" | True | False  that calls the *real* function loaded
from /repo and returns the truth value of the property ("skip" outside the stated bound).  Verdicts:
  confirmed       search tree exhausted, every path CONFIRMED by CrossHair and every in-bound path returned True
  counterexample  some path returned False / raised; concrete arguments (deep_realize) are re-run natively
  unknown         time-out / unexplored paths / realisation  (inconclusive; never success)
Every kernel has a reachability twin (the assertion forced false on in-bound paths) that must be refuted, else the
kernel is vacuous.
"""
import ast
import inspect
import os
import sys
import time
import traceback


def explore(kernel, timeout=60.0, per_path=10.0, twin=False):
    from crosshair.core_and_libs import standalone_statespace  # noqa: F401  (registers the library patches)
    from crosshair.core import explore_paths, deep_realize
    from crosshair.options import AnalysisOptionSet, DEFAULT_OPTIONS
    from crosshair.statespace import RootNode, VerificationStatus
    res = dict(paths=0, inbound=0, fail=None)

    def on_done(space, pre_args, args, ret, exc, stack):
        res["paths"] += 1
        if exc is None and isinstance(ret, str) and ret == "skip":
            return False
        res["inbound"] += 1
        bad = exc is not None or not ret
        if twin:
            bad = True
        if bad:
            try:
                res["fail"] = (deep_realize(pre_args.arguments), repr(exc) if exc is not None else None)
            except BaseException as e:   # noqa
                res["fail"] = (None, "unrealisable: %r" % (e,))
            return True
        return False

    opts = DEFAULT_OPTIONS.overlay(AnalysisOptionSet(per_condition_timeout=timeout, per_path_timeout=per_path,
                                                     max_uninteresting_iterations=sys.maxsize))
    root = RootNode()
    t = time.time()
    explore_paths(lambda ba: kernel(*ba.args, **ba.kwargs), inspect.signature(kernel), opts, root, on_done)
    wall = time.time() - t
    status = None
    exhausted = False
    try:
        exhausted = bool(root.child.is_exhausted())
        status = root.child.get_result().verification_status
    except Exception:
        pass
    if res["fail"] is not None:
        verdict = "counterexample"
    elif exhausted and status == VerificationStatus.CONFIRMED and res["inbound"] > 0:
        verdict = "confirmed"
    elif exhausted and status == VerificationStatus.CONFIRMED:
        verdict = "vacuous"
    else:
        verdict = "unknown"
    args = None
    if res["fail"] is not None and res["fail"][0] is not None:
        args = {k: v for k, v in res["fail"][0].items()}
    return dict(verdict=verdict, paths=res["paths"], inbound=res["inbound"], args=args,
                exc=res["fail"][1] if res["fail"] else None, wall=round(wall, 2), status=str(status))


def native(kernel, args):
    """re-run a kernel on concrete arguments; True = property holds"""
    try:
        r = kernel(**args)
    except Exception as e:   # noqa
        return False, "raised %r" % (e,)
    if isinstance(r, str) and r == "skip":
        return True, "skip (outside the bound)"
    return bool(r), "returned %r" % (r,)


class Kernel:
    def __init__(self, name, fn, timeout=60.0, per_path=10.0, functions=(), bound=""):
        self.name, self.fn, self.timeout, self.per_path = name, fn, timeout, per_path
        self.functions, self.bound = list(functions), bound


def _one(k):
    try:
        main = explore(k.fn, k.timeout, k.per_path)
        twin = explore(k.fn, min(k.timeout, 30.0), k.per_path, twin=True)
        rep = None
        if main["verdict"] == "counterexample" and main["args"] is not None:
            ok, text = native(k.fn, main["args"])
            rep = dict(holds=ok, text=text)
        main["args_repr"] = repr(main.pop("args")) if main.get("args") is not None else None
        twin.pop("args", None)
        return dict(name=k.name, main=main, twin=twin, replay=rep, bound=k.bound, functions=k.functions)
    except BaseException:   # noqa
        return dict(name=k.name, error=traceback.format_exc())


def run_kernels(run, prop, kernels, procs=None):
    """Explore every kernel (own process each) and fold the outcome into a report.Run."""
    from .pathsym import par_explore
    t = time.time()
    outs = par_explore(_one, kernels, procs or min(len(kernels), os.cpu_count() or 4))
    for o in outs:
        if "error" in o:
            run.error("E1 kernel %s crashed: %s" % (o["name"], o["error"][-400:]))
            continue
        m, tw = o["main"], o["twin"]
        run.oblige(m["verdict"] == "confirmed")
        run.solver["paths"] += m["paths"]
        part = dict(engine="crosshair", kernel=o["name"], verdict=m["verdict"], paths=m["paths"],
                    inbound_paths=m["inbound"], wall_s=m["wall"], bound=o["bound"], functions=o["functions"],
                    reachability_twin=tw["verdict"] + " after %d paths" % tw["paths"])
        run.parts.append(part)
        for fn in o["functions"]:
            if fn not in run.functions:
                run.functions.append(fn)
        run.case(("E1", o["name"], m["verdict"]), dict(kernel=o["name"], verdict=m["verdict"], paths=m["paths"],
                                                         bound=o["bound"]))
        run.evaluations += max(0, m["paths"] - 1)
        run.witnesses.append("%s: reachability twin %s" % (o["name"], tw["verdict"]))
        if tw["verdict"] != "counterexample":
            run.error("E1 kernel %s is vacuous: its reachability twin was not refuted (%s)" % (o["name"], tw["verdict"]))
        if m["verdict"] == "counterexample":
            if o["replay"] is None:
                run.error("E1 kernel %s: counterexample could not be realised (%s)" % (o["name"], m["exc"]))
            elif o["replay"]["holds"]:
                run.error("E1 kernel %s: CrossHair counterexample %s does not reproduce natively (%s): engine "
                          "artefact, not a finding" % (o["name"], m["args_repr"], o["replay"]["text"]))
            else:
                run.fail("E1 kernel %s fails" % o["name"],
                         dict(kernel=o["name"], arguments=m["args_repr"], native=o["replay"]["text"], exc=m["exc"]),
                         dict(harness="xh", kernel=o["name"], args_repr=m["args_repr"], property=prop))
        elif m["verdict"] != "confirmed":
            run.error("E1 kernel %s not confirmed within %ss (%s, %d paths): inconclusive" % (
                o["name"], m["wall"], m["verdict"], m["paths"]))
    return time.time() - t


def replay_kernel(kernels, payload):
    for k in kernels:
        if k.name == payload["kernel"]:
            args = ast.literal_eval(payload["args_repr"])
            ok, text = native(k.fn, args)
            return (not ok), "native run of kernel %s on %s: %s" % (k.name, payload["args_repr"], text)
    return False, "unknown kernel %s" % payload.get("kernel")
