"""Model validation: a fixed battery of call scripts (the repository's own test scenarios re-expressed as scripts)
is executed over the in-memory model and over the passthrough back end (real OS below a scratch directory); the
traces of operations, the results and the final trees must be identical.  A disagreement is an engine error."""
import hashlib
import z3

from . import step
from .pathsym import PathSym
from .universe import World, C_ONE, C_MULTI
from .conc import build_pinned

_done = {}


def script(w):
    c0 = w.contents[0]
    good = hashlib.sha256(c0).hexdigest()
    return [step.StoreObj(0, 0), step.StoreObj(1, 0), step.StoreObj(2, 1), step.StoreObj(0, 1), step.Tag(2, 0),
            step.StoreData(1), step.StoreMeta(0, 0, None), step.StoreMeta(0, 1, "c"), step.StoreMeta(0, 1, None),
            step.RetrieveMeta(0, "c"), step.Retrieve(1), step.HexDigest(1, "SHA-1", "sha1"),
            step.StoreObj(2, 0, size=len(c0) + 1, invalid=True), step.StoreObj(2, 0, checksum=good.upper(), calgo="SHA-256"),
            step.DeleteIfInvalid(1, "0" * 32, "md5", 12, True), step.DeleteMeta(0, "c"), step.Delete(0),
            step.Delete(1), step.Delete(2), step.Delete(1), step.DeleteMeta(0, None, all_docs=True),
            step.Tag(0, w.fake), step.Delete(0)]


def run_script(mode):
    from . import fault     # single-threaded stand-ins: a wait() that nobody can end raises instead of hanging
    w = World(pids=["a", "ab", "b"], contents=[C_ONE, C_MULTI], formats=[None, "c"], mode=mode, sym_dirs=True,
              threading_mod=fault.SEQ_THREADING, multiprocessing_mod=fault.SEQ_MULTIPROCESSING)
    try:
        ps = PathSym(w.inv())
        ps.begin()
        F = build_pinned(ps, w, {d: False for d in map(str, w.dirv.values())})
        s = w.store()
        out = []
        for c in script(w):
            n0 = len(F.trace)
            try:
                v = c.run(w, s)
                r = ("ok", v if isinstance(v, (bytes, str)) else type(v).__name__)
            except Exception as e:   # noqa
                r = ("exc", type(e).__name__)
            ops = [(k, p if "/tmp/" not in p else p.rsplit("/", 1)[0] + "/<tmp>") for k, p in F.trace[n0:]]
            out.append((c.label, r, ops))
        tree = F.b.snapshot("/s/")
        dirs = [d for d in F.b.all_dirs("/s/") if d.startswith("/s/")]
        return out, tree, dirs
    finally:
        w.cleanup()


def validate(run):
    """once per process; records the outcome in the evidence and raises an engine error on disagreement"""
    if "r" not in _done:
        try:
            a, ta, da = run_script("model")
            b, tb, db = run_script("passthrough")
        except Exception as e:   # noqa
            if type(e).__name__ in ("LearnFailed", "Aliasing"):
                # the code under test fails the plain calls by which addresses are observed: the checks report that
                # themselves (as a violation, after native confirmation); the battery has nothing to compare
                run.witnesses.append("model validation not run: %s" % str(e)[:200])
                return True
            raise
        diff = [(x[0], x[1:], y[1:]) for x, y in zip(a, b) if x != y]
        ok = not diff and ta == tb and da == db
        _done["r"] = (ok, len(a), sum(len(x[2]) for x in a), diff[:2], sorted(set(ta) ^ set(tb))[:3])
    ok, ncalls, nops, diff, tdiff = _done["r"]
    run.witnesses.append("model validation: %d scripted calls, %d file-system operations: traces, results and final "
                         "trees of the in-memory model and of the real OS (passthrough) %s" % (
                             ncalls, nops, "are identical" if ok else "DIFFER"))
    if not ok:
        run.error("environment model disagrees with the real file system on the validation battery: %r %r" % (diff, tdiff))
    return ok
