"""In-memory source mutants for the self-test (AST/source patch of the loaded copy; nothing on disk).
Selected with HSVERIF_MUTANT=<name>; each entry: (file, [(old, new)], properties expected to flag it)."""
MUTANTS = {
    "substr-remove": ("filehashstore.py", [("if cid_pid_line.strip() != ref_id", "if ref_id not in cid_pid_line")],
                      ["C05", "C03", "C18"]),
    "delete-always-obj": ("filehashstore.py", [("                    if os.path.getsize(cid_ref_abs_path) == 0:\n                        debug_msg",
                                                "                    if os.path.getsize(cid_ref_abs_path) >= 0:\n                        debug_msg")],
                          ["C04", "C05"]),
    "tag-overwrites": ("filehashstore.py", [("                    raise PidRefsAlreadyExistsError(error_msg)\n\n                elif not os.path.isfile(pid_refs_path) and os.path.isfile(",
                                             "                    pass\n\n                elif not os.path.isfile(pid_refs_path) and os.path.isfile(")],
                       ["C03", "C05"]),
    "dii-deletes-referenced": ("filehashstore.py", [("            if os.path.isfile(cid_refs_abs_path):\n                debug_msg = (\n                    f\"Cid reference file exists for: {cid}, skipping delete request.\"",
                                                     "            if False:\n                debug_msg = (\n                    f\"Cid reference file exists for: {cid}, skipping delete request.\"")],
                               ["C04", "C06"]),
    "meta-delete-all-default-only": ("filehashstore.py", [("        if format_id is None:\n            # Delete all metadata documents",
                                                           "        if False:\n            # Delete all metadata documents")],
                                     ["C11"]),
    "stream-no-rewind": ("filehashstore.py", [("        self._obj.seek(0)\n\n        while True:", "        while True:")], ["C01"]),
    "algo-list-alias": ("filehashstore.py", [("algorithm_list_to_calculate = list(self.default_algo_list)", "algorithm_list_to_calculate = self.default_algo_list")], ["C02"]),
    "check-string-inner-ws": ("filehashstore.py", [('if string is None or string.strip() == "" or any(ch.isspace() for ch in string):', 'if string is None or string.strip() == "":')], ["C17", "C18"]),
    "check-integer-zero": ("filehashstore.py", [("            if file_size < 1:", "            if file_size < 0:")], ["C17"]),
    "shard-drop-remainder-sep": ("filehashstore.py", [("            + [checksum[self.depth * self.width :]]", "            + [checksum[self.depth * self.width + 1 :]]")], ["C15"]),
    "meta-docname-sep": ("filehashstore.py", [("        pid_doc = self._computehash(pid + checked_format_id)\n\n        sync_begin_debug_msg = (\n            f\" Adding pid", "        pid_doc = self._computehash(pid + \"-\" + checked_format_id)\n\n        sync_begin_debug_msg = (\n            f\" Adding pid")], ["C15", "C11"]),
    "cidrefs-no-newline": ("filehashstore.py", [("                    if ref_type == \"cid\":\n                        tmp_cid_ref_file.write(ref_id + \"\\n\")", "                    if ref_type == \"cid\":\n                        tmp_cid_ref_file.write(ref_id)")], ["C15", "C05"]),
    "cid-release-no-notify": ("filehashstore.py", [("                self.object_locked_cids_th.remove(cid)\n                self.object_cid_condition_th.notify()", "                self.object_locked_cids_th.remove(cid)")], ["C08"]),
    "store-leaks-pid-lock-on-error": ("filehashstore.py", [("                    self.fhs_logger.info(\"Successfully stored object for pid: %s\", pid)\n                finally:\n                    # Release pid\n                    self._release_object_locked_pids(pid)", "                    self.fhs_logger.info(\"Successfully stored object for pid: %s\", pid)\n                    self._release_object_locked_pids(pid)\n                finally:\n                    pass")], ["C08"]),
    "meta-overwrite-in-place": ("filehashstore.py", [("                shutil.move(metadata_tmp, full_path)\n                self.fhs_logger.debug(\"Successfully put metadata for pid: %s\", pid)", "                with open(full_path, \"wb\") as _dst, open(metadata_tmp, \"rb\") as _src:\n                    for _chunk in iter(lambda: _src.read(4), b\"\"):\n                        _dst.write(_chunk)\n                os.remove(metadata_tmp)\n                self.fhs_logger.debug(\"Successfully put metadata for pid: %s\", pid)")], ["C09", "C12"]),
    "untag-swallow-keeps-pidref": ("filehashstore.py", [("                self._untag_object(pid, cid)\n                raise ue", "                raise ue")], ["C13"]),
    "config-ns-not-compared": ("filehashstore.py", [("                if key != \"store_path\":\n                    supplied_key = properties[key]", "                if key != \"store_path\" and key != \"store_metadata_namespace\":\n                    supplied_key = properties[key]")], ["C14"]),
    "config-stale-dirs-accepted-if-empty-refs": ("filehashstore.py", [("                subfolders = [\"objects\", \"metadata\", \"refs\"]", "                subfolders = [\"metadata\", \"refs\"]")], ["C14"]),
}


def selected():
    import os
    n = os.environ.get("HSVERIF_MUTANT")
    if not n:
        return None
    return MUTANTS[n]
