"""Environment model for the real HashStore code: an interposition layer over a *backend*.

Two backends share one interposition layer (the layer owns buffering, operation counting, the trace and the
injection points; the backend only stores bytes and directory entries):

  * ModelBackend  - in-memory POSIX subset; existence bits and contents may be *symbolic*: an entry's ``exists``
                    may be a z3 Boolean decided lazily through the path explorer, its data a thunk that
                    concretises through explorer decisions.  Entries are replaced (never mutated) by operations,
                    so "entry object is still the initial one" == "untouched" == its pre-state variable.
  * RealBackend   - the same primitives delegated to the real OS below a scratch root ("passthrough"); used for
                    replaying counterexamples on the real file system and for validating the model.

Every mutating or file-opening operation calls FS.tick(kind, path): the single place where crashes, faults and
scheduling points are injected.  Existence probes call FS.probe(kind, path): scheduling points only.
"""
import io as _io
import os as _os
import posixpath
import types
import errno
import pathlib
import stat as _stat

_FT = type(lambda: 0)

MUTATING = ("mkdir", "rmdir", "create", "open-w", "open-a", "open-r+", "write", "truncate", "rename", "remove", "chmod", "flock")
OPENING = ("open-r",)


class Crash(BaseException):
    """Process death: not catchable by `except Exception`; the FS is frozen afterwards."""


class Diverged(BaseException):
    """A call issued more file-system operations than any terminating call of the code under test could: it is taken
    not to return (not catchable by `except Exception`; every further operation raises it again)."""


OP_BUDGET = 50000        # operations and probes per FS object (one call under test, or one history)


class Ent:
    """One file entry.  exists: bool or z3 BoolRef (decided lazily); data: bytes or thunk -> bytes."""
    __slots__ = ("exists", "data", "tag")

    def __init__(self, exists, data=b"", tag=None):
        self.exists = exists
        self.data = data
        self.tag = tag

    def get(self):
        d = self.data
        if type(d) is _FT:
            d = d()
            self.data = d
        return d


class ModelBackend:
    def __init__(self, decide=None):
        self.files = {}            # path -> Ent
        self.dirs = {"/": True}    # path -> True | z3 BoolRef
        self.decide = decide       # callable(z3 bool) -> bool

    def clone_concrete(self):
        b = ModelBackend(self.decide)
        b.files = dict(self.files)
        b.dirs = dict(self.dirs)
        b.links = [set(g) for g in (getattr(self, "links", None) or [])]
        return b

    # -- probes
    def _truth(self, v):
        if v is True or v is False:
            return v
        return self.decide(v)

    def isfile(self, p):
        e = self.files.get(p)
        if e is None:
            return False
        ex = e.exists
        if ex is True or ex is False:
            return ex
        ex = self.decide(ex)
        e.exists = ex              # cache (identity of the entry is kept)
        return ex

    def isdir(self, p):
        v = self.dirs.get(p)
        if v is None:
            return False
        if v is True:
            return True
        v = self.decide(v)
        if v:
            self.dirs[p] = True
        else:
            del self.dirs[p]
        return v

    # -- primitives (preconditions checked by the layer)
    def mkdir1(self, p):
        self.dirs[p] = True

    def rmdir1(self, p):
        self.dirs.pop(p, None)

    def _group(self, p):
        """names that are hard links of the same file as p (p included)"""
        g = getattr(self, "links", None)
        if not g:
            return [p]
        for grp in g:
            if p in grp:
                return sorted(grp)
        return [p]

    def _ungroup(self, p):
        for grp in getattr(self, "links", None) or []:
            grp.discard(p)

    def create(self, p, data=b""):
        self._ungroup(p)
        self.files[p] = Ent(True, data)

    def read(self, p):
        return self.files[p].get()

    def write(self, p, data):
        for q in self._group(p):           # in-place modification is seen through every name of the file
            self.files[q] = Ent(True, data)

    def remove(self, p):
        self._ungroup(p)
        self.files[p] = Ent(False, b"")

    def rename(self, s, d):
        e = self.files[s]
        self._ungroup(d)
        for grp in getattr(self, "links", None) or []:
            if s in grp:
                grp.discard(s)
                grp.add(d)
        self.files[d] = Ent(True, e.data)      # the (possibly lazy) content moves with the entry
        self.files[s] = Ent(False, b"")

    def link(self, s, d):
        # a second name for the same file, created in one step
        if not hasattr(self, "links") or self.links is None:
            self.links = []
        for grp in self.links:
            if s in grp:
                grp.add(d)
                break
        else:
            self.links.append({s, d})
        self.files[d] = Ent(True, self.files[s].data)

    def listdir(self, p):
        out = []
        for k in sorted(self.files):
            if posixpath.dirname(k) == p and self.isfile(k):
                out.append(posixpath.basename(k))
        for k in sorted(self.dirs):
            if k != "/" and posixpath.dirname(k) == p and k != p and self.isdir(k):
                out.append(posixpath.basename(k))
        return out

    def snapshot(self, prefix="/"):
        """concretely existing files under prefix (forces lazy decisions!)"""
        return {k: e.get() for k, e in sorted(self.files.items()) if k.startswith(prefix) and self.isfile(k)}

    def all_dirs(self, prefix="/"):
        return sorted(k for k in list(self.dirs) if k.startswith(prefix) and self.isdir(k))


class RealBackend:
    """Same primitives on the real OS under `root` (model path "/x/y" -> root + "/x/y")."""

    def __init__(self, root):
        self.root = root.rstrip("/")
        _os.makedirs(self.root, exist_ok=True)

    def _r(self, p):
        return self.root + p

    def isfile(self, p):
        return _os.path.isfile(self._r(p))

    def isdir(self, p):
        return _os.path.isdir(self._r(p))

    def mkdir1(self, p):
        _os.mkdir(self._r(p))

    def rmdir1(self, p):
        _os.rmdir(self._r(p))

    def create(self, p, data=b""):
        with open(self._r(p), "wb") as f:
            f.write(data)

    def read(self, p):
        with open(self._r(p), "rb") as f:
            return f.read()

    def write(self, p, data):
        # in-place rewrite of the whole content (same inode), like a flushed buffered writer
        fd = _os.open(self._r(p), _os.O_WRONLY | _os.O_CREAT)
        try:
            _os.ftruncate(fd, 0)
            _os.pwrite(fd, data, 0)
        finally:
            _os.close(fd)

    def remove(self, p):
        _os.remove(self._r(p))

    def rename(self, s, d):
        _os.rename(self._r(s), self._r(d))

    def link(self, s, d):
        _os.link(self._r(s), self._r(d))

    def listdir(self, p):
        return sorted(_os.listdir(self._r(p)))

    def snapshot(self, prefix="/"):
        out = {}
        for dp, _dn, fn in _os.walk(self._r(prefix.rstrip("/") or "/")):
            for f in fn:
                full = _os.path.join(dp, f)
                with open(full, "rb") as fh:
                    out[full[len(self.root):]] = fh.read()
        return dict(sorted(out.items()))

    def all_dirs(self, prefix="/"):
        out = []
        for dp, _dn, _fn in _os.walk(self._r(prefix.rstrip("/") or "/")):
            out.append(dp[len(self.root):] or "/")
        return sorted(out)


class FS:
    """Interposition layer state."""

    def __init__(self, backend=None, blksize=4):
        self.b = backend if backend is not None else ModelBackend()
        self.nops = 0
        self.trace = []
        self.tmpctr = 0
        self.env = {}
        self.blksize = blksize
        self.dead = False
        self.handles = []         # open FakeFile handles (an open handle follows its file through a rename)
        self.injector = None      # callable(i, kind, path): may raise OSError / Crash
        self.on_point = None      # callable(kind, path): scheduling point
        self.owner_of = None      # optional callable() -> label of the running thread (for traces)
        self.hardlinks = None     # optional callable() -> bool: does this file system support hard links?
        self.crossfs = None       # optional callable() -> bool: are the store's sub-trees / the temp directory /
        #                           the caller's files on different file systems? (rename and link across: EXDEV)
        self.logdebug = None      # optional callable() -> bool: is debug logging enabled in this deployment?
        self.locale_utf8 = None   # optional callable() -> bool: is the process's default text encoding UTF-8?
        #                           (asked when a text file is opened without an explicit encoding)
        self.env_asked = set()    # which of these the code under test actually depended on
        self.umask = 0o022        # the process's file mode creation mask (os.umask changes it)
        self.modes = {}           # permission bits of what was created or chmod-ed through this layer

    # ---- injection points
    def _count(self, kind, path):
        self.npoints = getattr(self, "npoints", 0) + 1
        if self.npoints > OP_BUDGET:
            raise Diverged("%d file-system operations and probes in one call (last: %s %s)" % (
                self.npoints, kind, path))

    def tick(self, kind, path):
        self._count(kind, path)
        if self.dead:
            raise Crash()
        if self.on_point is not None:
            self.on_point("fs." + kind, path)
            if self.dead:
                raise Crash()
        i = self.nops
        self.nops += 1
        self.trace.append((kind, path))
        if self.injector is not None:
            try:
                self.injector(i, kind, path)
            except Crash:
                self.dead = True
                raise

    def probe(self, kind, path):
        self._count(kind, path)
        if self.dead:
            raise Crash()
        if self.on_point is not None:
            self.on_point("fs." + kind, path)
            if self.dead:
                raise Crash()

    # ---- path helpers
    @staticmethod
    def p(path):
        s = _os.fspath(path)
        if isinstance(s, bytes):
            s = s.decode("utf8", "surrogateescape")
        # POSIX resolution without symbolic links: relative to the working directory "/", "." / ".." / "//" collapsed
        s = posixpath.normpath(posixpath.join("/", s))
        if s.startswith("//"):
            s = "/" + s.lstrip("/")
        return s

    def rp(self, path):
        """path resolution as the OS does it (no symbolic links): ".." steps back only from an existing directory;
        a path that passes through something that is not a directory names nothing"""
        s = _os.fspath(path)
        if isinstance(s, bytes):
            s = s.decode("utf8", "surrogateescape")
        if len(s) > 1 and (s.endswith("/") or s.endswith("/.")):
            base = self.rp(s.rstrip("/.") if s.rstrip("/.") else "/")
            return base + "/." if self.b.isfile(base) else base      # "file/" names nothing
        if ".." not in s:
            return self.p(s)
        parts = posixpath.join("/", s).split("/")
        out = []
        for n, comp in enumerate(parts):
            if comp in ("", "."):
                continue
            if comp == "..":
                if out:
                    if not self.b.isdir("/" + "/".join(out)):
                        return "/" + "/".join(out) + "/../" + "/".join(parts[n + 1:])      # names nothing
                    out.pop()
                continue
            out.append(comp)
        return "/" + "/".join(out)

    # ---- operations used by the shims
    def isfile(self, path):
        path = self.rp(path)
        self.probe("isfile", path)
        return self.b.isfile(path)

    def isdir(self, path):
        path = self.rp(path)
        self.probe("isdir", path)
        return self.b.isdir(path)

    def exists(self, path):
        path = self.rp(path)
        self.probe("exists", path)
        return self.b.isdir(path) or self.b.isfile(path)

    def makedirs(self, path, mode=0o777, exist_ok=False):
        path = self.rp(path)
        self.probe("isdir", path)
        if self.b.isdir(path) or self.b.isfile(path):
            self.tick("mkdir", path)          # os.makedirs issues mkdir(leaf) first; it fails with EEXIST
            if exist_ok and self.b.isdir(path):
                return
            raise FileExistsError(errno.EEXIST, "File exists", path)
        parts = path.split("/")
        for i in range(2, len(parts) + 1):
            d = "/".join(parts[:i])
            if self.b.isdir(d):
                continue
            if self.b.isfile(d):
                raise NotADirectoryError(errno.ENOTDIR, "Not a directory", d)
            self.tick("mkdir", d)
            if self.b.isfile(d):     # something that is not a directory appeared there in between
                raise FileExistsError(errno.EEXIST, "File exists", d)
            if self.b.isdir(d):      # another thread created it in between
                if i == len(parts) and not exist_ok:
                    raise FileExistsError(errno.EEXIST, "File exists", d)
                continue
            par = posixpath.dirname(d)
            if par and par != "/" and not self.b.isdir(par):
                # the parent was removed (by another thread) after it was seen to exist
                raise FileNotFoundError(errno.ENOENT, "No such file or directory", d)
            self.b.mkdir1(d)
            # the leaf gets the requested mode, missing parents the default one; both filtered by the umask
            self.modes[d] = (mode if i == len(parts) else 0o777) & ~self.umask

    def set_umask(self, mask):
        old, self.umask = self.umask, mask
        return old

    def note_created(self, path, mode=0o666):
        self.modes[path] = mode & ~self.umask

    def _need_parent(self, path):
        par = posixpath.dirname(path)
        if not self.b.isdir(par):
            raise FileNotFoundError(errno.ENOENT, "No such file or directory", path)

    def remove(self, path):
        path = self.rp(path)
        self.tick("remove", path)
        if not self.b.isfile(path):
            if self.b.isdir(path):
                raise IsADirectoryError(errno.EISDIR, "Is a directory", path)
            raise FileNotFoundError(errno.ENOENT, "No such file or directory", path)
        open_here = [h for h in self.handles if not h._closed and h.name == path and not getattr(h, "_orphan", False)]
        frozen = self.b.read(path) if open_here else None
        self.b.remove(path)
        for h in open_here:
            h._orphan = True              # unlinked while open: later writes reach no name,
            h._frozen = frozen            # reads still see the file that was open

    @staticmethod
    def area(path):
        """the unit that a deployment may put on a file system of its own"""
        parts = path.split("/")
        if len(parts) > 2 and parts[1] == "s" and parts[2] in ("objects", "metadata", "refs"):
            return "/s/" + parts[2]
        return "/" + (parts[1] if len(parts) > 1 else "")

    def _xdev(self, src, dst):
        if self.crossfs is not None and self.area(src) != self.area(dst) and self.crossfs():
            raise OSError(errno.EXDEV, "Invalid cross-device link", src)

    def rename(self, src, dst):
        src = self.rp(src)
        dst = self.rp(dst)
        self.tick("rename", dst)
        self._xdev(src, dst)
        if not self.b.isfile(src):
            raise FileNotFoundError(errno.ENOENT, "No such file or directory", src)
        self._need_parent(dst)
        if self.b.isdir(dst):
            raise IsADirectoryError(errno.EISDIR, "Is a directory", dst)
        over = [h for h in self.handles if not h._closed and h.name == dst and not getattr(h, "_orphan", False)]
        frozen = self.b.read(dst) if over and self.b.isfile(dst) else None
        self.b.rename(src, dst)
        if src in self.modes:
            self.modes[dst] = self.modes.pop(src)
        for h in self.handles:
            if not h._closed:
                if h in over:
                    h._orphan = True          # the file it had open was replaced;
                    h._frozen = frozen        # reads still see the file that was open
                elif h.name == src and not getattr(h, "_orphan", False):
                    h.name = dst

    def link(self, src, dst):
        src, dst = self.rp(src), self.rp(dst)
        self.tick("link", dst)
        if self.hardlinks is not None and not self.hardlinks():
            raise PermissionError(errno.EPERM, "Operation not permitted (file system without hard links)", src)
        self._xdev(src, dst)
        if not self.b.isfile(src):
            raise FileNotFoundError(errno.ENOENT, "No such file or directory", src)
        self._need_parent(dst)
        if self.b.isfile(dst) or self.b.isdir(dst):
            raise FileExistsError(errno.EEXIST, "File exists", dst)
        self.b.link(src, dst)

    def rmdir(self, path):
        path = self.rp(path)
        self.tick("rmdir", path)
        if not self.b.isdir(path):
            if self.b.isfile(path):
                raise NotADirectoryError(errno.ENOTDIR, "Not a directory", path)
            raise FileNotFoundError(errno.ENOENT, "No such file or directory", path)
        if self.b.listdir(path):
            raise OSError(errno.ENOTEMPTY, "Directory not empty", path)
        self.b.rmdir1(path)

    def removedirs(self, path):
        path = self.rp(path)
        self.rmdir(path)
        head = posixpath.dirname(path)
        while head and head != "/":
            try:
                self.rmdir(head)
            except OSError:
                break
            head = posixpath.dirname(head)

    def listdir(self, path):
        path = self.rp(path)
        self.probe("listdir", path)
        if not self.b.isdir(path):
            raise FileNotFoundError(errno.ENOENT, "No such file or directory", path)
        return self.b.listdir(path)

    def getsize(self, path):
        path = self.rp(path)
        self.probe("stat", path)
        if not self.b.isfile(path):
            if self.b.isdir(path):
                return 4096
            raise FileNotFoundError(errno.ENOENT, "No such file or directory", path)
        return len(self.b.read(path))

    def chmod(self, path, mode):
        path = self.rp(path)
        self.tick("chmod", path)
        if not (self.b.isfile(path) or self.b.isdir(path)):
            raise FileNotFoundError(errno.ENOENT, "No such file or directory", path)
        self.modes[path] = mode

    def move(self, src, dst):
        """shutil.move for regular files: rename, and on OSError the stdlib's copy + unlink fallback."""
        src = self.rp(src)
        dst = self.rp(dst)
        self.probe("isdir", dst)
        real_dst = dst
        if self.b.isdir(dst):
            real_dst = posixpath.join(dst, posixpath.basename(src))
            if self.b.isfile(real_dst) or self.b.isdir(real_dst):
                raise OSError("Destination path '%s' already exists" % real_dst)
        try:
            self.rename(src, real_dst)
        except OSError:
            # shutil.move: not a link, not a directory -> copy2(src, real_dst); os.unlink(src)
            self.probe("isdir", src)
            if self.b.isdir(src):
                raise
            fsrc = FakeFile(self, src, "rb")
            try:
                fdst = FakeFile(self, real_dst, "wb")
                try:
                    fdst.write(fsrc.read())
                finally:
                    fdst.close()
            finally:
                fsrc.close()
            self.remove(src)
        return real_dst


class FakeFile(_io.BufferedIOBase):
    """Binary or text handle over a backend entry.  Writes are buffered in user space like CPython's buffered
    writers: text handles until flush/close/seek/truncate/read, binary handles until two blocks have accumulated
    (then one 'write' operation) or flush/close.  Unflushed data is invisible to others and lost in a crash."""

    _enc, _errors, _newline = "utf8", "strict", None      # text handles: codec and newline mode as in open()

    def __init__(self, fs, path, mode, encoding=None, errors=None, newline=None):
        path = fs.rp(path)
        self._fs = fs
        self.name = path
        self.mode = mode
        self._text = "b" not in mode
        if self._text and encoding is None and fs.locale_utf8 is not None:
            fs.env_asked.add("locale")
            encoding = "utf8" if fs.locale_utf8() else "ascii"      # a legacy / "C" locale
        self._enc, self._errors, self._newline = encoding or "utf8", errors or "strict", newline
        base = mode.replace("b", "").replace("t", "")
        self._pending = []
        b = fs.b
        if base in ("r", "r+"):
            fs.tick("open-" + base, path)
            if not b.isfile(path):
                if b.isdir(path):
                    raise IsADirectoryError(errno.EISDIR, "Is a directory", path)
                raise FileNotFoundError(errno.ENOENT, "No such file or directory", path)
            self._pos = 0
        elif base in ("w", "w+"):
            fs.tick("open-w", path)
            fs._need_parent(path)
            if b.isdir(path):
                raise IsADirectoryError(errno.EISDIR, "Is a directory", path)
            if b.isfile(path):
                b.write(path, b"")
            else:
                b.create(path, b"")
                fs.note_created(path)
            self._pos = 0
        elif base in ("x", "x+"):
            fs.tick("open-x", path)
            fs._need_parent(path)
            if b.isfile(path) or b.isdir(path):
                raise FileExistsError(errno.EEXIST, "File exists", path)
            b.create(path, b"")
            fs.note_created(path)
            self._pos = 0
        elif base == "a":
            fs.tick("open-a", path)
            fs._need_parent(path)
            if b.isdir(path):
                raise IsADirectoryError(errno.EISDIR, "Is a directory", path)
            if not b.isfile(path):
                b.create(path, b"")
                fs.note_created(path)
            self._pos = len(b.read(path))
        else:
            raise ValueError("unsupported mode " + mode)
        self._writable = base != "r"
        self._append = base == "a"
        self._closed = False
        self._orphan = False
        fs.handles.append(self)

    # -- buffer plumbing
    def _cur(self):
        if getattr(self, "_orphan", False) and getattr(self, "_frozen", None) is not None:
            return self._frozen
        return self._fs.b.read(self.name)

    def _sync(self):
        if not self._pending:
            return
        pend = self._pending
        self._pending = []
        if getattr(self, "_orphan", False):
            return
        self._fs.tick("write", self.name)
        buf = self._cur()
        for pos, d in pend:
            if pos is None:
                pos = len(buf)
            if pos > len(buf):
                buf = buf + b"\0" * (pos - len(buf))
            buf = buf[:pos] + d + buf[pos + len(d):]
        self._fs.b.write(self.name, buf)

    def readable(self):
        return True

    def writable(self):
        return self._writable

    def seekable(self):
        return True

    @property
    def closed(self):
        return self._closed

    def fileno(self):
        return 3

    def tell(self):
        self._chk()
        return self._pos

    def _chk(self):
        if self._fs.dead:
            raise Crash()
        if self._closed:
            raise ValueError("I/O operation on closed file.")

    def seek(self, pos, whence=0):
        self._chk()
        self._sync()
        if whence == 0:
            self._pos = pos
        elif whence == 1:
            self._pos += pos
        else:
            self._pos = len(self._cur()) + pos
        return self._pos

    def _readbytes(self, n=-1, point=True):
        self._chk()
        self._sync()
        buf = self._cur()
        if n is None or n < 0:
            n = len(buf) - self._pos
        d = buf[self._pos:self._pos + n]
        self._pos += len(d)
        if point:
            self._fs.probe("read", self.name)     # a scheduling point: what is done with the block comes later
        return d

    def _tokens(self):
        """text mode: the decoded rest of the file as (character(s) delivered, raw bytes consumed) pairs, with the
        newline translation of open(newline=None) (universal newlines: CR LF and CR are delivered as LF)"""
        self._chk()
        self._sync()
        s = self._cur()[self._pos:].decode(self._enc, self._errors)
        out = []
        i = 0
        while i < len(s):
            ch = s[i]
            if ch == "\r" and self._newline is None:
                if i + 1 < len(s) and s[i + 1] == "\n":
                    out.append(("\n", len("\r\n".encode(self._enc))))
                    i += 2
                    continue
                out.append(("\n", len(ch.encode(self._enc))))
            else:
                out.append((ch, len(ch.encode(self._enc, "surrogateescape" if self._errors != "strict" else "strict"))
                            if self._errors == "strict" else 1))
            i += 1
        return out

    def _take(self, toks):
        self._pos += sum(t[1] for t in toks)
        return "".join(t[0] for t in toks)

    def _plain(self):
        """text mode fast path: the decoded rest of the file when it needs no newline translation, else None"""
        self._chk()
        self._sync()
        s = self._cur()[self._pos:].decode(self._enc, self._errors)
        if "\r" in s or self._errors != "strict":
            return None
        return s

    def read(self, n=-1):
        if self._text:
            s = self._plain()
            if s is not None:
                out = s if n is None or n < 0 else s[:n]
                self._pos += len(out.encode(self._enc))
                return out
            toks = self._tokens()
            return self._take(toks if n is None or n < 0 else toks[:n])
        return self._readbytes(n)

    def read1(self, n=-1):
        return self.read(n)

    def readinto(self, b):
        d = self._readbytes(len(b), point=False)
        b[:len(d)] = d
        self._fs.probe("read", self.name)         # ... after the caller's buffer was filled
        return len(d)

    def readline(self, limit=-1):
        if self._text:
            s = self._plain()
            if s is not None:
                j = s.find("\n")
                out = s if j < 0 else s[:j + 1]
                self._pos += len(out.encode(self._enc))
                return out
            toks = self._tokens()
            k = 0
            while k < len(toks):
                k += 1
                c = toks[k - 1][0]
                if c == "\n" or (self._newline == "" and c == "\r" and not (k < len(toks) and toks[k][0] == "\n")):
                    break
            return self._take(toks[:k])
        self._chk()
        self._sync()
        buf = self._cur()
        j = buf.find(b"\n", self._pos)
        end = len(buf) if j < 0 else j + 1
        d = buf[self._pos:end]
        self._pos = end
        return d

    def readlines(self, hint=-1):
        if self._text:
            s = self._plain()
            if s is not None and (hint is None or hint <= 0):
                self._pos += len(s.encode(self._enc))
                return s.splitlines(True) if not any(c in s for c in "\x0b\x0c\x1c\x1d\x1e\x85\u2028\u2029") \
                    else [x + "\n" for x in s.split("\n")[:-1]] + ([s.split("\n")[-1]] if s.split("\n")[-1] else [])
        out = []
        total = 0
        while True:
            ln = self.readline()
            if not ln:
                return out
            out.append(ln)
            total += len(ln)
            if hint is not None and hint > 0 and total > hint:
                return out          # io: "no more lines will be read if the total size of all lines so far exceeds hint"

    def __iter__(self):
        return iter(self.readlines())

    def write(self, d):
        self._chk()
        if not self._writable:
            raise _io.UnsupportedOperation("not writable")
        if self._text:
            if not isinstance(d, str):
                raise TypeError("write() argument must be str, not %s" % type(d).__name__)
            d = d.encode(self._enc, self._errors)
        else:
            d = bytes(d)
        if self._append:
            self._pending.append((None, d))
        else:
            self._pending.append((self._pos, d))
            self._pos += len(d)
        if not self._text and sum(len(x[1]) for x in self._pending) >= 2 * max(1, self._fs.blksize):
            self._sync()      # a binary buffered writer flushes when its buffer (two blocks in the model) is full
        return len(d)

    def writelines(self, lines):
        for ln in lines:
            self.write(ln)

    def truncate(self, size=None):
        self._chk()
        self._sync()
        if size is None:
            size = self._pos
        self._fs.tick("truncate", self.name)
        cur = self._cur()
        self._fs.b.write(self.name, cur[:size] + b"\0" * (size - len(cur)))
        return size

    def flush(self):
        if self._closed:
            return
        if self._fs.dead:
            raise Crash()
        self._sync()

    def close(self):
        if self._closed:
            return
        self._closed = True          # like CPython: the handle is closed even when the final flush fails
        if self._fs.dead:
            return
        self._sync()

    def __enter__(self):
        self._chk()
        return self

    def __exit__(self, *a):
        self.close()
        return False

    def __del__(self):
        pass

    @property
    def raw(self):
        """the unbuffered layer under a buffered binary handle: it sees what has reached the file, not what is still
        in this handle's write buffer, and keeps a position of its own"""
        if self._text:
            raise AttributeError("raw")
        v = self.__dict__.get("_rawview")
        if v is None:
            v = self.__dict__["_rawview"] = _RawView(self)
        return v


class _RawView:
    def __init__(self, f):
        self._f, self._pos = f, f._pos

    @property
    def name(self):
        return self._f.name

    @property
    def closed(self):
        return self._f._closed

    def readable(self):
        return True

    def seekable(self):
        return True

    def tell(self):
        return self._pos

    def seek(self, pos, whence=0):
        if whence == 0:
            self._pos = pos
        elif whence == 1:
            self._pos += pos
        else:
            self._pos = len(self._f._cur()) + pos
        return self._pos

    def read(self, n=-1):
        self._f._chk()
        buf = self._f._cur()                      # without the pending (unflushed) writes of the buffered layer
        if n is None or n < 0:
            n = len(buf) - self._pos
        d = buf[self._pos:self._pos + n]
        self._pos += len(d)
        return d

    def readinto(self, b):
        d = self.read(len(b))
        b[:len(d)] = d
        return len(d)

    def close(self):
        self._f.close()


class _Stat:
    def __init__(self, size, blksize, isdir=False):
        self.st_size = size
        self.st_blksize = blksize
        self.st_mode = (_stat.S_IFDIR | 0o755) if isdir else (_stat.S_IFREG | 0o664)


class _NS(types.SimpleNamespace):
    """stand-in for a standard module: the listed functions are the model's; constants (SEEK_CUR, O_*,
    DEFAULT_BUFFER_SIZE, ...) fall through to the real module; any other function is an environment gap (never the
    real one, which would touch the real file system)"""

    def __getattr__(self, n):
        real = self.__dict__.get("_real")
        if real is not None and hasattr(real, n) and not callable(getattr(real, n)):
            return getattr(real, n)
        raise AttributeError("module %r has no attribute %r in the environment model" % (
            getattr(real, "__name__", "?"), n))


class _NullLog:
    """a logger that writes nothing; whether debug output is enabled is the environment's choice"""
    _fs = None

    def __init__(self, fs_getter=None):
        self.__dict__["_fs"] = fs_getter

    def _debug_on(self):
        fs = self._fs() if self._fs is not None else None
        return bool(fs is not None and fs.logdebug is not None and fs.logdebug())

    def isEnabledFor(self, level):
        return level >= 30 or (level >= 10 and self._debug_on())

    def getEffectiveLevel(self):
        return 10 if self._debug_on() else 30

    @property
    def level(self):
        return self.getEffectiveLevel()

    def __getattr__(self, n):
        return lambda *a, **k: None


class _Fr:
    function = "caller"


class Shim:
    """The replacement module globals.  All functions dispatch to `self.fs` (switchable per path / per copy)."""

    def __init__(self, fs=None):
        self.fs = fs
        H = self

        def _stat_fn(p):
            F = H.fs
            p = H.fs.rp(p)
            F.probe("stat", p)
            if F.b.isfile(p):
                return _Stat(len(F.b.read(p)), F.blksize)
            if F.b.isdir(p):
                return _Stat(4096, F.blksize, True)
            raise FileNotFoundError(errno.ENOENT, "No such file or directory", p)

        def _walk(top):
            F = H.fs
            top = FS.p(top)
            if not F.isdir(top):
                return
            names = F.listdir(top)
            dirs = [n for n in names if F.b.isdir(posixpath.join(top, n))]
            files = [n for n in names if n not in dirs]
            yield top, dirs, files
            for d in dirs:
                yield from _walk(posixpath.join(top, d))

        def fake_open(path, mode="r", buffering=-1, encoding=None, errors=None, newline=None, *a, **k):
            return FakeFile(H.fs, path, mode, encoding, errors, newline)

        def named_tmp(dir=None, delete=True, **k):
            F = H.fs
            d = FS.p(dir if dir is not None else "/tmp")
            F.tmpctr += 1
            name = posixpath.join(d, "tmp%04d" % F.tmpctr)
            F.tick("create", name)
            if not F.b.isdir(d):
                raise FileNotFoundError(errno.ENOENT, "No such file or directory", name)
            F.b.create(name, b"")
            F.note_created(name, 0o600)          # NamedTemporaryFile creates its file with mode 0600
            f = FakeFile.__new__(FakeFile)
            f._fs = F
            f.name = name
            f.mode = "w+b"
            f._text = False
            f._pending = []
            f._pos = 0
            f._writable = True
            f._append = False
            f._closed = False
            f._orphan = False
            F.handles.append(f)
            return f

        def flock(fd, op):
            H.fs.tick("flock", "fd")

        class FakePath(pathlib.PurePosixPath):
            def mkdir(self, mode=0o777, parents=False, exist_ok=False):
                try:
                    H.fs.makedirs(str(self), mode)
                except FileExistsError:
                    if not exist_ok:
                        raise

            def exists(self):
                return H.fs.exists(str(self))

            def is_file(self):
                return H.fs.isfile(str(self))

            def is_dir(self):
                return H.fs.isdir(str(self))

        def d(name):
            return lambda *a, **k: getattr(H.fs, name)(*a, **k)

        def os_open(path, flags, mode=0o777, *a, **k):
            F = H.fs
            p = H.fs.rp(path)
            acc = flags & (_os.O_WRONLY | _os.O_RDWR)
            if flags & _os.O_CREAT:
                F.tick("create" if not F.b.isfile(p) else "open-w", p)
                if F.b.isdir(p):
                    raise IsADirectoryError(errno.EISDIR, "Is a directory", p)
                if F.b.isfile(p):
                    if flags & _os.O_EXCL:
                        raise FileExistsError(errno.EEXIST, "File exists", p)
                    if flags & _os.O_TRUNC:
                        F.b.write(p, b"")
                else:
                    F._need_parent(p)
                    F.b.create(p, b"")
                f = FakeFile.__new__(FakeFile)
                f._fs, f.name, f.mode, f._text = F, p, "r+b" if acc else "rb", False
                f._pending, f._pos, f._writable, f._append, f._closed, f._orphan = [], 0, bool(acc), bool(flags & _os.O_APPEND), False, False
                F.handles.append(f)
            else:
                f = FakeFile(F, p, ("r+b" if acc else "rb"))
                if flags & _os.O_TRUNC and acc:
                    f.truncate(0)
                f._append = bool(flags & _os.O_APPEND)
            if not hasattr(F, "fds"):
                F.fds = {}
            fd = 100 + len(F.fds)
            F.fds[fd] = f
            return fd

        def os_close(fd):
            f = getattr(H.fs, "fds", {}).get(fd)
            if f is None:
                raise OSError(errno.EBADF, "Bad file descriptor")
            f.close()

        def os_write(fd, data):
            f = H.fs.fds[fd]
            n = f.write(data)
            f.flush()
            return n

        def os_read(fd, n):
            return H.fs.fds[fd].read(n)

        def os_fsync(fd):
            f = getattr(H.fs, "fds", {}).get(fd)
            if f is not None:
                f.flush()

        def os_fdopen(fd, mode="r", *a, **k):
            f = H.fs.fds[fd]
            f._text = "b" not in mode
            return f

        class EnvProxy:
            def __getitem__(self, k):
                return H.fs.env[k]

            def __setitem__(self, k, v):
                H.fs.env[k] = v

            def __contains__(self, k):
                return k in H.fs.env

            def get(self, k, dflt=None):
                return H.fs.env.get(k, dflt)

            def pop(self, k, *a):
                return H.fs.env.pop(k, *a)

        self.path = types.SimpleNamespace(
            isfile=d("isfile"), isdir=d("isdir"), exists=d("exists"), getsize=d("getsize"), join=posixpath.join,
            dirname=posixpath.dirname, basename=posixpath.basename, abspath=posixpath.abspath,
            relpath=posixpath.relpath, split=posixpath.split, splitext=posixpath.splitext,
            normpath=posixpath.normpath, isabs=posixpath.isabs, realpath=posixpath.abspath,
            expanduser=lambda p: p, sep="/")
        self.os = _NS(
            _real=_os, link=d("link"), path=self.path, fspath=_os.fspath, PathLike=_os.PathLike, sep="/", linesep="\n",
            makedirs=d("makedirs"), remove=d("remove"), unlink=d("remove"), rename=d("rename"),
            replace=d("rename"), rmdir=d("rmdir"), removedirs=d("removedirs"), listdir=d("listdir"), stat=_stat_fn, chmod=d("chmod"), umask=d("set_umask"),
            getenv=lambda k, dflt=None: H.fs.env.get(k, dflt), walk=_walk, getcwd=lambda: "/", environ=EnvProxy(),
            getpid=_os.getpid, error=OSError, mkdir=lambda p, mode=0o777: H.fs.makedirs(p, mode),
            open=os_open, close=os_close, write=os_write, read=os_read, fsync=os_fsync, fdopen=os_fdopen,
            O_RDONLY=_os.O_RDONLY, O_WRONLY=_os.O_WRONLY, O_RDWR=_os.O_RDWR, O_CREAT=_os.O_CREAT,
            O_EXCL=_os.O_EXCL, O_TRUNC=_os.O_TRUNC, O_APPEND=_os.O_APPEND, utime=lambda *a, **k: None,
            access=lambda p, m: H.fs.exists(p), R_OK=4, W_OK=2, X_OK=1, F_OK=0, name="posix", devnull="/dev/null")
        def copyfile(src, dst, *a, **k):
            F = H.fs
            fsrc = FakeFile(F, src, "rb")
            try:
                fdst = FakeFile(F, dst, "wb")
                try:
                    while True:
                        chunk = fsrc.read(max(1, F.blksize))
                        if not chunk:
                            break
                        fdst.write(chunk)
                finally:
                    fdst.close()
            finally:
                fsrc.close()
            return dst

        def copymode(src, dst, *a, **k):
            H.fs.chmod(dst, 0o664)

        def copy(src, dst, *a, **k):
            F = H.fs
            if F.isdir(dst):
                dst = posixpath.join(FS.p(dst), posixpath.basename(FS.p(src)))
            copyfile(src, dst)
            copymode(src, dst)
            return dst

        def rmtree(path, ignore_errors=False, onerror=None):
            F = H.fs
            path = FS.p(path)
            try:
                for name in F.listdir(path):
                    full = posixpath.join(path, name)
                    if F.b.isdir(full):
                        rmtree(full)
                    else:
                        F.remove(full)
                F.rmdir(path)
            except OSError:
                if not ignore_errors:
                    raise

        self.shutil = types.SimpleNamespace(move=d("move"), copyfile=copyfile, copymode=copymode, copystat=copymode,
                                            copy=copy, copy2=copy, rmtree=rmtree, Error=OSError)
        self.io = _NS(
            _real=_io, open=fake_open, BufferedIOBase=_io.BufferedIOBase, BufferedReader=_io.BufferedReader,
            BytesIO=_io.BytesIO, StringIO=_io.StringIO, IOBase=_io.IOBase, TextIOWrapper=_io.TextIOWrapper,
            UnsupportedOperation=_io.UnsupportedOperation)
        self.open = fake_open
        self.NamedTemporaryFile = named_tmp
        self.fcntl = types.SimpleNamespace(flock=flock, LOCK_EX=2, LOCK_UN=8, LOCK_SH=1, LOCK_NB=4)
        self.atexit = types.SimpleNamespace(register=lambda f, *a, **k: f, unregister=lambda f: None)
        self.logging = types.SimpleNamespace(
            getLogger=lambda n=None: _NullLog(lambda: H.fs), debug=lambda *a, **k: None, info=lambda *a, **k: None,
            warning=lambda *a, **k: None, error=lambda *a, **k: None, critical=lambda *a, **k: None,
            basicConfig=lambda *a, **k: None, DEBUG=10, INFO=20, WARNING=30, ERROR=40, CRITICAL=50)
        self.inspect = types.SimpleNamespace(stack=lambda: [_Fr, _Fr, _Fr])
        self.gettempdir = lambda: "/tmp"
        self.Path = FakePath

    def install(self, mod, extra=None):
        """Replace the module globals of a loaded copy of the code under test."""
        repl = dict(os=self.os, shutil=self.shutil, io=self.io, open=self.open,
                    NamedTemporaryFile=self.NamedTemporaryFile, fcntl=self.fcntl, atexit=self.atexit,
                    logging=self.logging, inspect=self.inspect, Path=self.Path, gettempdir=self.gettempdir)
        if extra:
            repl.update(extra)
        for k, v in repl.items():
            if k == "open" or k in mod.__dict__:
                mod.__dict__[k] = v
