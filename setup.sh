#!/bin/sh
# Offline set-up: overlay venv on top of /venv (python 3.12 with the repository's own dependencies)
# holding crosshair-tool + z3-solver + jsonschema from the offline wheelhouse.  Idempotent.
set -e
HERE="$(cd "$(dirname "$0")" && pwd)"
VENV="$HERE/.venv"
WHEELS=/opt/veriftools/wheels
if [ -x "$VENV/bin/python" ] && "$VENV/bin/python" -c "import z3, crosshair, yaml, jsonschema" 2>/dev/null; then
    exit 0
fi
rm -rf "$VENV"
/venv/bin/python -m venv "$VENV"
SP="$("$VENV/bin/python" -c 'import sysconfig; print(sysconfig.get_paths()["purelib"])')"
# see /venv's packages (PyYAML etc.) from the overlay; --system-site-packages cannot do it (/venv is a venv)
printf '%s\n' "import site; site.addsitedir('/venv/lib/python3.12/site-packages')" > "$SP/_overlay_venv.pth"
PIP_NO_INDEX=1 "$VENV/bin/python" -m pip install -q --no-index --find-links "$WHEELS" \
    crosshair-tool z3-solver jsonschema >/dev/null
"$VENV/bin/python" -c "import z3, crosshair, yaml, jsonschema; print('verif venv ready: z3', z3.get_version_string())"
