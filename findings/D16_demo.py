"""Native reproduction (unfixed tree): D=$(mktemp -d); python D16_demo.py $D setup; strace -f -o /dev/null -e trace=ftruncate -e inject=ftruncate:signal=KILL python D16_demo.py $D delete; python D16_demo.py $D check  (exit 1 = defect present)
D16: delete_object killed between the in-place rewrite of a cid refs file and its truncation leaves the tail of the
old content; with non-ASCII pids the tail starts inside a multi-byte character and the refs file is unreadable."""
import os, sys, subprocess, tempfile, shutil
sys.path.insert(0, os.environ.get("HS_SRC", "/repo/src"))
from hashstore.filehashstore import FileHashStore
root = sys.argv[1]
props = dict(store_path=root + "/s", store_depth=3, store_width=2, store_algorithm="SHA-256",
             store_metadata_namespace="ns")
if sys.argv[2] == "setup":
    s = FileHashStore(props)
    open(root + "/x", "wb").write(b"data")
    s.store_object("é", root + "/x")
    s.store_object("éb", root + "/x")
elif sys.argv[2] == "delete":
    FileHashStore(props).delete_object("é")
else:
    s = FileHashStore(props)
    for pid in ("éb", "é"):
        try:
            print(pid, "->", s.retrieve_object(pid).read())
        except Exception as e:
            print(pid, "-> retrieve:", type(e).__name__, str(e)[:80])
    try:
        s.delete_object("é")
    except Exception as e:
        print("delete_object:", type(e).__name__, str(e)[:80])
    try:
        s.store_object("é", root + "/x")
        print("store ok")
    except Exception as e:
        print("store_object:", type(e).__name__, str(e)[:80]); sys.exit(1)
