#!/usr/bin/env python3
"""Regenerate MANIFEST.json from the table below (python3 tools/mkmanifest.py)."""
import json, os
HERE = os.path.dirname(os.path.dirname(os.path.abspath(__file__)))
props = {}
for l in open(os.path.join(HERE, "properties.jsonl")):
    p = json.loads(l); props[p["id"]] = p

E2 = "pathsym (z3-backed dynamic symbolic execution of the real methods over a symbolic file-system/crash/fault/schedule environment)"
E1 = "CrossHair 0.0.110 symbolic execution of the real leaf functions (z3)"
CHECKS = {
 # id: (technique, level text, note, design_ref)
 "C05": (E2 + "; one inductive step from an arbitrary Inv state; Inv closure and reference-model equality discharged by z3",
         "Bounded symbolic execution of the real API methods: for every state satisfying the representation invariant (symbolic) and every call over the universe, z3 shows Inv(post), post = model(pre, call) and the documented result class; by induction this covers call histories of any length inside the identifier/content universe. Counterexamples are replayed natively on the real file system before being reported.",
         "Bounds: |P|=3(4) pids incl. prefix/case variants, 2(3) contents + one never-stored cid, 3(5) formats; symfs POSIX model (validated by native replay); z3 5.1; reference model and Inv are the checker's.", "2/C05"),
}
NA = {}
def main():
    checks = []
    for pid in sorted(props):
        if pid in CHECKS:
            tech, text, note, ref = CHECKS[pid]
            checks.append(dict(property_id=pid, quick_cmd="./check %s --tier quick" % pid,
                               thorough_cmd="./check %s --tier thorough" % pid,
                               evidence_file="evidence/%s.json" % pid,
                               replay_cmd_template="./check replay {path}", engine="pathsym+crosshair",
                               level_claimed=dict(category="other", text=text, design_ref="DESIGN.md section " + ref),
                               level_note=note, technique=tech))
    na = [dict(property_id=p, reason=NA.get(p, "check not built yet in this round (see DESIGN.md section 5 build order)"))
          for p in sorted(props) if p not in CHECKS]
    man = dict(version=1, setup_cmd="sh ./setup.sh",
               hooks=dict(guard="HASHSTORE_VERIF", enable="none needed: all instrumentation replaces module globals of a private copy of the source loaded from /repo/src at run time",
                          baseline_off_cmd="cd /repo && /venv/bin/python -m pytest -ra -q -p no:cacheprovider --timeout=900 --continue-on-collection-errors",
                          source_commits=[], add_only=True),
               engines=[dict(name="pathsym", path="engine/pathsym.py", serves_properties=sorted(CHECKS), kind_free_text=E2),
                        dict(name="crosshair", path="engine/xh.py", serves_properties=[], kind_free_text=E1)],
               checks=checks, not_applicable=na,
               notes="Solver-based checking of the real code; see DESIGN.md. Exit 2 = inconclusive (engine error), never success.")
    json.dump(man, open(os.path.join(HERE, "MANIFEST.json"), "w"), indent=1)
    print("checks:", len(checks), "not_applicable:", len(na))
if __name__ == "__main__":
    main()
