#!/usr/bin/env python3
"""Regenerate MANIFEST.json from the table below (python3 tools/mkmanifest.py)."""
import json, os
HERE = os.path.dirname(os.path.dirname(os.path.abspath(__file__)))
props = {}
for l in open(os.path.join(HERE, "properties.jsonl")):
    p = json.loads(l); props[p["id"]] = p

E2 = "pathsym (z3-backed dynamic symbolic execution of the real methods over a symbolic file-system/crash/fault/schedule environment)"
E1 = "CrossHair 0.0.110 symbolic execution of the real leaf functions (z3)"
STEP = "pathsym: one inductive step of the real API methods from an arbitrary state satisfying Inv (z3 variables); obligations discharged by z3 validity queries; counterexamples replayed natively on the real file system"
BND = "Bounds: identifier/content/format universe listed in evidence.bounds (|P|=3 quick, 4 thorough; contents up to 3 model buffers; one never-stored cid); symfs POSIX model (validated by native replay of every counterexample); z3 5.1; Inv and the reference model are the checker's. Further universes added by the seeded rounds (DESIGN.md 7.6): large contents / documents, non-ASCII, path-, digest- and template-shaped identifiers, a long cid, other store algorithms, two stores in one process. Environment Booleans (hard-link support, sub-trees on separate file systems, debug logging, UTF-8 default text encoding) are decided by the solver when the code asks. Overall exploration budget 20 min (quick) / 4 h (thorough): running out is exit 2. Exit 2 = inconclusive."
CHECKS = {
 "C01": ("CrossHair symbolic execution of Stream/_write_to_tmp_file_and_get_hex_digests (symbolic bytes, offset, buffer size) + " + STEP,
         "E1: all paths of the real streaming/temp-file code for symbolic content (<=5/8 bytes), caller offset and buffer size are confirmed by CrossHair/z3. E2: store_object with each of the four data kinds (solver-chosen stream offset) under each of the five store algorithms from an arbitrary symbolic store state returns cid = hashlib digest and true size and retrieve_object returns the bytes; calls on other pids leave the binding and object untouched (frame discharged by z3), which covers interleaved histories by induction.",
         BND + " hashlib trusted; recording hashlib stand-in in the E1 kernel.", "2/C01"),
 "C02": (STEP + "; structured symbolic spellings (algorithm x case mask x separator); per-instance algorithm list part of Inv",
         "For every contract-accepted spelling of the 12 algorithms as additional_algorithm, checksum_algorithm and in get_hex_digest, from arbitrary symbolic store state: key set = 5 defaults + requested, values = hashlib digests; history independence: the instance algorithm list is in Inv and closed under every call, and a fixed follow-up history gives identical results on the instance that served the call and on a fresh instance over a copy of the store. E1: CrossHair confirms _clean_algorithm for every case mask x separator of each of the 12 names.",
         BND + " Spellings limited to the structured template.", "2/C02"),
 "C03": (STEP + "; binding immutability and frame as z3 formulas",
         "For every Inv state and every store/tag/delete/delete_if_invalid call over the universe: bound pid => documented already-exists class and unchanged binding, every other pid's reference and list membership unchanged; unbound => binds; rebinding only via the delete transition. Inductive: all histories inside the universe.", BND, "2/C03"),
 "C04": (STEP + "; C04 as one z3 formula over all cids/pids",
         "For every Inv state and every call (nine methods, rejected calls, wrong validation data, metadata calls): forall cid: referenced-after and present-before => present-after with unchanged bytes, proved over all untouched pids at once; obj' = model (last delete removes the object).", BND, "2/C04"),
 "C05": (STEP + "; Inv closure and reference-model equality",
         "For every Inv state and every call over the universe z3 shows Inv(post), post = model(pre, call), documented result class, no temp/_delete residue; delete_object succeeds from every partial condition the API can create (binding to a cid without object, shared lists with prefix/suffix pids). Inductive over histories of any length inside the universe. Instance state: after one call of each method a fixed follow-up history touching every method gives identical results on the used instance and on a fresh instance over a copy of the store.", BND, "2/C05"),
 "C06": (STEP + "; verdict oracle (hashlib, casefold, integer equality)",
         "Every (entry point, algorithm spelling, checksum variant incl. case and single-digit edits, size variant) from arbitrary symbolic prior state of the content (absent / unreferenced / referenced): verdict equals the oracle; invalid => mismatch class, no binding, no new object / object removed iff unreferenced, no temp file; valid => nothing rejected or deleted.", BND + " delete_if_invalid_object precondition: descriptor of a present object.", "2/C06"),
 "C11": (STEP + " on the metadata cells",
         "For every Inv state and every store/retrieve/delete_metadata and delete_object call: meta' = model(meta, call) by z3 (all other (pid, format) cells stay the untouched variables), retrieve returns the stored version, absent => ValueError / silent no-op; concatenation-colliding (pid, format) pairs in the universe.", BND, "2/C11"),
 "C15": ("CrossHair on _shard and the path builders (symbolic depth/width/digest) + pathsym enumeration of configuration selectors with a whole-tree oracle",
         "E1: for symbolic depth 1-6, width 1-4 and digest strings of every real digest length CrossHair confirms the token structure of _shard and the path builders against an independent README-layout implementation. E2: all 120 configurations x a fixed script (shared content, non-ASCII pid, empty content, formats incl. edge whitespace): the complete tree and hashstore.yaml equal the independently computed expected tree; one loaded module serves all five algorithms per worker.",
         "Finite configuration selectors: the solver enumerates (E2). Script identifiers are concrete. Independent layout implementation is the checker's.", "2/C15"),
 "C17": (STEP + " over an invalid-argument grammar (no mutating operation on the trace) + CrossHair lemmas on the argument checkers",
         "Every rejected call of the grammar (one and two bad parameters) and every read-only call from an arbitrary symbolic state: documented class, no mutating file-system operation on the trace, post = pre by z3. CrossHair confirms _check_string/_check_integer/_check_arg_format_id/checksum pairing for all strings (len<=3/4) and all ints.", BND + " Grammar is finite (E2).", "2/C17"),
 "C18": (STEP + " over adversarial identifier alphabets; containment on the trace; CrossHair lemma on _check_string",
         "For each adversarial alphabet (separators, '..', dashes, glob/shell characters, 5000-char prefix pairs, case variants, non-BMP, Unicode normalisation forms, formats differing by edge whitespace) distinct identifiers are observed at distinct addresses (else a violation, confirmed natively), frame of all other identifiers' cells by z3, model equality, and every created path hex-only under the store root. E1: accepted identifier has no line-breaking/strippable character (all Unicode, len<=3/4).",
         BND + " Identifiers are concrete selectors (hashing is a C boundary).", "2/C18"),
 "C19": ("pathsym relational step: both procedures on two copies of one symbolic state in one path; z3 validity of post_A = post_B",
         "From every Inv state, for each validation variant (absent, correct incl. upper-case and non-default algorithm, wrong checksum, wrong size): one-call and in-steps procedures give the same outcome, cid, size, default digests and equal post-states (z3) when valid; the same mismatch class, unchanged pid binding and undisturbed referenced objects when invalid.", BND, "2/C19"),
 "C07": ("pathsym with a symbolic schedule vector (sched_n, wake_k) over a cooperative scheduler running the real methods in real threads; oracle = all sequential orders of the real code",
         "Every pair (thorough: B=2 and 8 triples) of store_object/tag_object/delete_object/delete_if_invalid_object calls over 2 pids and 2 contents from four starting states: every feasible schedule within the preemption bound is executed; each call's result and the final abstract state must equal some sequential order (StoreObjectForPidAlreadyInProgress admitted only against a concurrent store of the same pid); three-thread spurious-wake scenarios for the cid, reference-pid and object-pid locks. Violations are replayed with real threads on the real file system under the recorded schedule. Four genuine races are listed as known findings (D6, D11, D12, D13).",
         "Preemption bound 1 (quick) / 2 (thorough), plus one pair per locked-identifier list at bound 2 in both tiers, a depth-1/width-1 family and a pair of 70 001-byte contents; scheduling points = lock acquire / release / wait (timed waits may time out), file-system operations, existence probes, reads, attribute writes of the store instance; scheduler-aware model of threading.Lock/Condition (notify wakes one arbitrary waiter).", "2/C07"),
 "C08": ("pathsym: symbolic schedule vector (deadlock decided per explored interleaving) + symbolic fault point; lock lists and follow-up calls",
         "All C07/C12 pair scenarios plus mixed object/metadata pairs: no execution deadlocks or exceeds the step budget, all four locked-identifier lists are empty at quiescence and follow-up calls on the identifiers complete; the same after every single call that failed with an injected I/O error (once / persistent).",
         "Same bounds as C07/C12/C13; plus pairs through two store instances of one process, USE_MULTIPROCESSING set while a call runs, unencodable identifiers, a regular file where a directory is wanted; a call that exceeds the operation / step budget counts as not returning.", "2/C08"),
 "C09": ("pathsym with a symbolic crash point (crash_at) as observer over the frozen file-system model; trace check for in-place writes",
         "For every feasible (state, call, operation index): at the frozen state before the operation every touched object address holds content whose digest is its name, every metadata document is a complete supplied version, every pid reference a complete cid; only rename/remove ever target a permanent address.",
         "Granularity: one buffered flush = one operation; POSIX rename/unlink atomic; contents up to 3 model buffers.", "2/C09"),
 "C10": ("pathsym with a symbolic crash point; frozen model; recovery script on a fresh instance; frame by z3; passthrough replay with fork + os._exit",
         "For every feasible (Inv state, call, crash point): after reopening, every other pid's reference, listing, metadata and object are unchanged (z3); the interrupted pid is served with the right bytes or a not-found/inconsistent error; delete_object (may say unknown) then store_object succeeds and the pid is retrievable; the recovery harms no other pid.",
         "One crash per call; |P|=2 (3 thorough); directory existence symbolic in the thorough tier.", "2/C10"),
 "C12": ("pathsym with a symbolic schedule vector over a cooperative scheduler; oracle = all sequential orders",
         "Every pair (thorough: B=2 and triples) of store_metadata(v0/v1), retrieve_metadata, delete_metadata(format), delete_metadata(all), delete_object on one pid and two formats from four starting states: results and final documents equal some sequential order; a reader gets a complete version or a not-found error.",
         "Preemption bound 1 (quick) / 2 (thorough); same scheduler model as C07.", "2/C12"),
 "C13": ("pathsym with symbolic fault point, stickiness and errno over the file-system model; passthrough replay raising a real OSError",
         "For every feasible (Inv state, call, fault site, once/persistent): success is reported only if post = model(pre, call); a failed store_object/tag_object leaves the pid's reference and its membership in every cid list unchanged (bound stays bound, unbound stays unbound and not half-bound) and an unbound pid can be stored at once on retry; a failed store_metadata keeps the previous version; other pids untouched. One genuine defect (persistent failure on the cid list defeats the roll-back) is a known finding (D9).",
         "One fault per call; shutil.move's copy+unlink fallback modelled; quick tier: errno EIO, directories tied.", "2/C13"),
 "C16": ("pathsym relational step (both synchronisation modes in one path, z3 validity of post_th = post_mp) + schedule exploration through the multiprocessing code paths on scheduler-aware model primitives",
         "(i) every Inv state x every call of the C05/C11 menu gives equal results and post-states in both modes; (ii) the C07/C12 interleavings re-explored with USE_MULTIPROCESSING=True execute the _mp sections. Real forked processes contending through OS-level primitives are NOT covered (not applicable to symbolic execution): the claim is limited to the code paths under assumed primitive semantics.",
         "multiprocessing.Lock/Condition/Manager().list() assumed to behave like their threading counterparts.", "2/C16"),
 "C14": ("pathsym enumeration of z3-constrained configuration selector vectors (creation x reopening) over the real constructor on the environment model; zero-mutation trace check",
         "For every feasible (creation configuration, reopening configuration / property shape / encoding) within the difference budget, on empty and populated stores: accepted <=> equal after integer coercion and then existing data is retrievable and addressed as before; refused => documented error class and no mutating file-system operation on the trace; unsupported creation algorithm and data directories without hashstore.yaml refused without changes. One loaded module serves thousands of stores at one path per worker (process-level caches are exercised; the native replay re-runs that history).",
         "Finite selectors (the solver enumerates the constrained product: 54k pairs quick); depth 1-5, width 1-4, 5+6 algorithm names, 2 namespaces, int/str encodings, 8 property shapes.", "2/C14"),
 "C20": ("pathsym relational step: client main() and the API call on two copies of one symbolic store state in one path; z3 validity of post_client = post_api",
         "Every client verb with subsets of its options (valid and invalid values, missing -pid/-path) from an arbitrary symbolic store state: same success/error as the API call with the same values, same error class for well-typed values, equal post-states (z3), stdout carries the API's cid/digests/path/content; create-store round trip client<->API. An omitted -formatid means the store's default namespace for all metadata verbs.",
         "Option subsets of size <= 2 (+1 triple); knbvm/Postgres verbs outside; real argparse and factory executed, trusted.", "2/C20"),
}
NA = {}
def main():
    checks = []
    for pid in sorted(props):
        if pid in CHECKS:
            tech, text, note, ref = CHECKS[pid]
            checks.append(dict(property_id=pid, quick_cmd="./check %s --tier quick" % pid,
                               thorough_cmd="./check %s --tier thorough" % pid,
                               evidence_file="evidence/%s.json" % pid,
                               replay_cmd_template="./check replay {path}", engine="pathsym+crosshair",
                               level_claimed=dict(category="other", text=text, design_ref="DESIGN.md section " + ref),
                               level_note=note, technique=tech))
    na = [dict(property_id=p, reason=NA.get(p, "check not built yet in this round (see DESIGN.md section 5 build order)"))
          for p in sorted(props) if p not in CHECKS]
    man = dict(version=1, setup_cmd="sh ./setup.sh",
               hooks=dict(guard="HASHSTORE_VERIF", enable="none needed: all instrumentation replaces module globals of a private copy of the source loaded from /repo/src at run time",
                          baseline_off_cmd="cd /repo && /venv/bin/python -m pytest -ra -q -p no:cacheprovider --timeout=900 --continue-on-collection-errors",
                          source_commits=[], add_only=True),
               engines=[dict(name="pathsym", path="engine/pathsym.py", serves_properties=sorted(CHECKS), kind_free_text=E2),
                        dict(name="crosshair", path="engine/xh.py", serves_properties=[], kind_free_text=E1)],
               checks=checks, not_applicable=na,
               notes="Solver-based checking of the real code; see DESIGN.md. Exit 2 = inconclusive (engine error), never success.")
    json.dump(man, open(os.path.join(HERE, "MANIFEST.json"), "w"), indent=1)
    print("checks:", len(checks), "not_applicable:", len(na))
if __name__ == "__main__":
    main()
