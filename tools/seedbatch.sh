#!/bin/sh
# usage: tools/seedbatch.sh <suffix> <worktree-prefix> [props...]   e.g. tools/seedbatch.sh s5 /tmp/w7_ C01 C02
# runs tools/seed.py for each property with the target check first and the usual co-reporters after it
suf=$1; pre=$2; shift 2
extra() {
  case $1 in
    C01) echo "C05 C09 C13 C15";; C02) echo "C06 C13 C17";; C03) echo "C05 C13 C07";; C04) echo "C05 C07";; C05) echo "C04 C03";;
    C06) echo "C19 C07 C04";; C07) echo "C16 C08";; C08) echo "C13 C07 C12";; C09) echo "C10 C12 C13";; C10) echo "C09 C05";;
    C11) echo "C12 C13 C05";; C12) echo "C08 C16 C11";; C13) echo "C08 C16 C10";; C14) echo "C15";; C15) echo "C05 C18 C11";;
    C16) echo "C07 C08";; C17) echo "C02 C11 C05";; C18) echo "C05 C11";; C19) echo "C06 C05";; C20) echo "C14";;
  esac
}
for p in "$@"; do
  first=$(.venv/bin/python tools/seed.py $p-$suf $pre$p $p $p 2>&1 | grep "detected by\|rror")
  case "$first" in
    *"'$p'"*) echo "$p-$suf $first";;
    *) more=$(.venv/bin/python tools/seed.py $p-$suf $pre$p $p $p $(extra $p) 2>&1 | grep "detected by\|rror"); echo "$p-$suf $more";;
  esac
done
