#!/usr/bin/env python3
"""Print the 'measured cost' table of DESIGN.md 7.3 from the evidence files (run after the quick checks)."""
import json, os, sys
HERE = os.path.dirname(os.path.dirname(os.path.abspath(__file__)))
print("| id | tier | paths / solver queries / solver s / wall | distinct classes | obligations discharged |")
print("|---|---|---|---|---|")
for n in range(1, 21):
    p = os.path.join(HERE, "evidence", "C%02d.json" % n)
    try:
        e = json.load(open(p))
    except Exception:
        continue
    c = e["coverage"]
    s = c["solver"]
    print("| C%02d | %s | %s / %s / %.0f s / %.0f s | %s | %s/%s |" % (
        n, e["tier"], format(s["paths"], ","), format(s["solver_queries"], ","), s["solver_s"], e["wall_s"],
        c["distinct_nontrivial"], format(c["discharged"], ","), format(c["obligations"], ",")))
