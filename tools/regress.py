#!/usr/bin/env python3
"""Re-run recorded seeded changes against the current checks (each in its own scratch worktree of /repo, via
HASHSTORE_REPO; /repo itself is not touched).  usage: tools/regress.py <out.jsonl> <seed-id> ..."""
import json, os, subprocess, sys, time
HERE = os.path.dirname(os.path.dirname(os.path.abspath(__file__)))
out = sys.argv[1]
for sid in sys.argv[2:]:
    d = os.path.join(HERE, "seeded", sid)
    meta = json.load(open(os.path.join(d, "meta.json")))
    if meta.get("kept") is False:
        continue
    wt = "/tmp/wr_" + sid
    subprocess.run("git -C /repo worktree remove --force %s" % wt, shell=True, capture_output=True)
    subprocess.run("git -C /repo worktree add -f %s HEAD" % wt, shell=True, capture_output=True)
    rec = dict(seed=sid, applied=None, results={})
    try:
        for pf in ("patch.rebased.diff", "patch.diff"):
            p = os.path.join(d, pf)
            if os.path.exists(p) and subprocess.run("git -C %s apply %s" % (wt, p), shell=True, capture_output=True).returncode == 0:
                rec["applied"] = pf
                break
        if rec["applied"]:
            checks = list(meta.get("detected_by") or [meta["property"]])
            env = dict(os.environ, HASHSTORE_REPO=wt)
            for c in checks[:2]:
                t = time.time()
                r = subprocess.run([os.path.join(HERE, "check"), c, "--tier", os.environ.get("SEED_TIER", "quick")], env=env,
                                   capture_output=True, text=True, cwd=HERE)
                rec["results"][c] = dict(rc=r.returncode, violations=r.stdout.count("VIOLATION property="), wall=round(time.time() - t))
                if r.returncode == 1 and rec["results"][c]["violations"]:
                    break
        rec["detected"] = any(v["rc"] == 1 and v["violations"] for v in rec["results"].values())
    finally:
        subprocess.run("git -C /repo worktree remove --force %s" % wt, shell=True, capture_output=True)
    with open(out, "a") as f:
        f.write(json.dumps(rec) + "\n")
    print(sid, rec["applied"], rec.get("detected"), rec["results"], flush=True)
