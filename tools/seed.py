#!/usr/bin/env python3
"""Confirm and record a seeded change produced by a sub-agent.
usage: tools/seed.py <seed-id> <worktree> <property> [check ...]   (checks default to the property)
Steps: (1) the unedited suite passes in the worktree with the change; (2) demo.py exits 1 with the change and 0
without it; (3) the patch is applied to /repo (git apply), the named checks are run, /repo is restored; (4) everything
is recorded under /verif/seeded/<seed-id>/ (patch.diff, demo.py, NOTES.md, meta.json)."""
import json, os, shutil, subprocess, sys, time
HERE = os.path.dirname(os.path.dirname(os.path.abspath(__file__)))
sid, wt, prop = sys.argv[1], sys.argv[2], sys.argv[3]
checks = sys.argv[4:] or [prop]
env = dict(os.environ, PYTHONPATH=wt + "/src")
def sh(cmd, **k):
    return subprocess.run(cmd, shell=True, capture_output=True, text=True, **k)
meta = dict(seed=sid, property=prop, checks_run=checks, at=time.strftime("%Y-%m-%d %H:%M"))
diff = sh("git diff -- src", cwd=wt).stdout
assert diff.strip(), "no change in worktree"
r = sh("/venv/bin/python -m pytest -q -p no:cacheprovider --timeout=900 2>&1 | tail -3", cwd=wt, env=env)
meta["suite_with_change"] = ([l for l in r.stdout.strip().splitlines() if "passed" in l or "failed" in l or "error" in l] or ["?"])[-1].strip()
r1 = sh("/venv/bin/python demo.py", cwd=wt, env=env)
meta["demo_with_change_exit"] = r1.returncode
meta["demo_with_change_output"] = (r1.stdout + r1.stderr)[-600:]
# (no git stash: the stash is shared by all worktrees of a repository)
saved = os.path.join(wt, ".seed-change.diff")
open(saved, "w").write(diff)
assert sh("git checkout -- src", cwd=wt).returncode == 0
r0 = sh("/venv/bin/python demo.py", cwd=wt, env=env)
a_ = sh("git apply %s" % saved, cwd=wt)
assert a_.returncode == 0, a_.stderr
os.remove(saved)
assert sh("git diff -- src", cwd=wt).stdout == diff, "worktree change not restored"
meta["demo_without_change_exit"] = r0.returncode
print("suite:", meta["suite_with_change"], "| demo with change:", r1.returncode, "| without:", r0.returncode)
ok = "passed" in meta["suite_with_change"] and "failed" not in meta["suite_with_change"] and r1.returncode == 1 and r0.returncode == 0
meta["confirmed"] = ok
out = os.path.join(HERE, "seeded", sid)
os.makedirs(out, exist_ok=True)
open(os.path.join(out, "patch.diff"), "w").write(diff)
for f in ("demo.py", "NOTES.md"):
    if os.path.exists(os.path.join(wt, f)):
        shutil.copy(os.path.join(wt, f), os.path.join(out, f))
results = {}
via_wt = bool(os.environ.get("SEED_VIA_WORKTREE"))
meta["applied_to"] = ("worktree %s via HASHSTORE_REPO" % wt) if via_wt else "/repo (git apply, restored afterwards)"
if ok:
    cenv = dict(os.environ)
    if via_wt:
        cenv["HASHSTORE_REPO"] = wt
    else:
        assert not sh("git status --porcelain -- src", cwd="/repo").stdout.strip(), "/repo not clean"
        a = sh("git apply %s" % os.path.join(out, "patch.diff"), cwd="/repo")
        assert a.returncode == 0, a.stderr
    try:
        for c in checks:
            t = time.time()
            r = sh("./check %s --tier %s" % (c, os.environ.get("SEED_TIER", "quick")), cwd=HERE, env=cenv)
            nv = r.stdout.count("VIOLATION property=")
            first = [l for l in r.stdout.splitlines() if l.startswith("  class:")][:2]
            results[c] = dict(exit=r.returncode, violations=nv, first_classes=[f.strip()[:300] for f in first],
                              wall_s=round(time.time() - t, 1), last=(r.stdout.strip().splitlines() or [""])[-1][:200])
            print(c, "exit", r.returncode, "violations", nv, first[:1])
    finally:
        if not via_wt:
            sh("git checkout -- .", cwd="/repo")
    assert not sh("git status --porcelain -- src", cwd="/repo").stdout.strip()
meta["check_results"] = results
meta["detected_by"] = [c for c, v in results.items() if v["exit"] == 1 and v["violations"] > 0]
json.dump(meta, open(os.path.join(out, "meta.json"), "w"), indent=1)
print("detected by:", meta["detected_by"])
