#!/usr/bin/env python3
"""Seeded in-memory mutants: every mutant must be flagged (exit 1 + VIOLATION) by the checks named for it.
usage: tools/selftest.py [mutant ...]"""
import os, subprocess, sys
HERE = os.path.dirname(os.path.dirname(os.path.abspath(__file__)))
sys.path.insert(0, HERE)
from engine.mutants import MUTANTS
names = sys.argv[1:] or list(MUTANTS)
miss = 0
for n in names:
    for prop in MUTANTS[n][2]:
        if not os.path.exists(os.path.join(HERE, "props", prop + ".py")):
            continue
        env = dict(os.environ, HSVERIF_MUTANT=n)
        r = subprocess.run([os.path.join(HERE, "check"), prop, "--tier", "quick"], env=env, capture_output=True, text=True, cwd=HERE)
        nv = r.stdout.count("VIOLATION property=")
        ok = r.returncode == 1 and nv > 0
        miss += 0 if ok else 1
        print("%-32s %s rc=%d violations=%d %s" % (n, prop, r.returncode, nv, "DETECTED" if ok else "** MISSED **"))
        if not ok:
            print("   ", (r.stderr.strip().splitlines() or [""])[-1][:300])
# the evidence files were rewritten by mutant runs: they are not evidence of the unchanged tree
sys.exit(1 if miss else 0)
