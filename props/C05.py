"""C05 - reference bookkeeping is exact after every completed call (one inductive step from arbitrary Inv state)."""
from props.common import *   # noqa

MINE = {"store-state:dup-line", "store-state:foreign-line", "store-state:unterminated-line", "store-state:pid-ref-garbled", "store-state:tmp-residue", "store-state:delete-marker-residue", "store-state:foreign-file", "bookkeeping-not-exact", "result-class", "model:bind", "model:obj",
        "instance-state"}


def main(tier, replay_payload=None):
    w_args = universe(tier)
    menu_fn = full_menu
    if replay_payload is not None:
        return make_replayer(w_args, menu_fn)(replay_payload)
    run = report.Run("C05", tier, technique="pathsym: one inductive step, z3-discharged Inv closure and model equality")
    run.replayer = make_replayer(w_args, menu_fn)
    res = step.explore_steps(w_args, menu_fn)
    collect(run, res, MINE, w_args, menu_fn)
    run.functions = loader.function_lines(loader.load(), API_FUNCS)
    run.bounds = dict(pids=w_args["pids"], contents=[len(c) for c in w_args["contents"]], formats=w_args["formats"],
                      cids="digests of the contents + one never-stored cid", calls=res[0][2],
                      state="arbitrary state satisfying Inv (symbolic bind/order/object/metadata/directory variables)")
    run.explanation = ("Inductive step for C05: for every state satisfying the representation invariant Inv (z3 "
                       "variables) and every call of the menu, the real method is executed over the symbolic file-system "
                       "model; z3 proves Inv(post), post = reference-model(pre, call) and the documented result class "
                       "for all untouched state at once. The empty store satisfies Inv, so histories of any length "
                       "inside the universe are covered.")
    run.outside = ["identifiers/contents outside the universe", "more than |P| simultaneously bound pids",
                   "files placed in the store by hand"]
    run.need("a call was rejected as already-existing", run.reach["exists"] > 0)
    run.need("a delete of the last reference", run.reach["ok"] > 0)
    return run.finish()
