"""C05 - reference bookkeeping is exact after every completed call (one inductive step from arbitrary Inv state)."""
from props.common import *   # noqa

menu_fn = full_menu


def probe_menu(w):
    """one call of each method on pid0, each followed by the fresh-instance equivalence probe (small universe)"""
    import hashlib
    c1 = w.contents[1]
    return [step.probed(c) for c in (
        step.StoreObj(0, 1), step.Tag(0, 1), step.Delete(0), step.Retrieve(0), step.HexDigest(0, "md5", "md5"),
        step.StoreMeta(0, 0, None), step.RetrieveMeta(0, None), step.DeleteMeta(0, None, all_docs=True),
        step.StoreData(1), step.DeleteIfInvalid(1, hashlib.md5(c1).hexdigest(), "md5", len(c1) + 1, True, ", wrong size"),
        # the instance first serves the *other* pid (the follow-up history then asks about both)
        step.Retrieve(1), step.RetrieveMeta(1, None), step.HexDigest(1, "sha256", "sha256"), step.StoreObj(1, 0),
        step.StoreMeta(1, 1, None), step.Delete(1),
        # ... or a call that is rejected for its validation data (the instance must be as good as new afterwards)
        step.StoreObj(0, 1, size=len(c1) + 1, invalid=True, tagname=", wrong size"),
        step.StoreObj(0, 1, checksum="0" * 32, calgo="md5", invalid=True, tagname=", wrong checksum"))]


PROBE_ARGS = dict(pids=[P_A, P_AB], contents=[C_ONE, C_MULTI], formats=[None], fake_cid=False, sym_dirs=False)


MINE = {"history:results-depend-on-earlier-calls-on-the-instance", "store-state:dup-line", "store-state:foreign-line", "store-state:unterminated-line", "store-state:pid-ref-garbled", "store-state:tmp-residue", "store-state:delete-marker-residue", "store-state:foreign-file", "bookkeeping-not-exact", "result-class", "model:bind", "model:obj",
        "instance-state"}


def main(tier, replay_payload=None):
    w_args = universe(tier)
    if replay_payload is not None:
        if replay_payload.get("part") == "long-cid":
            la = dict(universe(tier, formats=False), fake_cid="long")
            return make_replayer(la, lambda w: object_menu(w, with_invalid=False, with_reads=False))(replay_payload)
        if replay_payload.get("probe"):
            return make_replayer(PROBE_ARGS, probe_menu)(replay_payload)
        return make_replayer(w_args, menu_fn)(replay_payload)
    run = report.Run("C05", tier, technique="pathsym: one inductive step, z3-discharged Inv closure and model equality")
    def replayer(p):
        if p.get("part") == "long-cid":
            la = dict(universe(tier, formats=False), fake_cid="long")
            return make_replayer(la, lambda w: object_menu(w, with_invalid=False, with_reads=False))(p)
        return (make_replayer(PROBE_ARGS, probe_menu) if p.get("probe") else make_replayer(w_args, menu_fn))(p)
    run.replayer = replayer
    res = step.explore_steps(w_args, menu_fn)
    collect(run, res, MINE, w_args, menu_fn)
    # the never-stored cid once more, longer than any digest (object calls only)
    long_args = dict(universe(tier, formats=False), fake_cid="long")
    long_menu = lambda w: object_menu(w, with_invalid=False, with_reads=False)
    collect(run, step.explore_steps(long_args, long_menu), MINE, long_args, long_menu, part="long-cid")
    before = set(run.failures)
    collect(run, step.explore_steps(PROBE_ARGS, probe_menu), MINE, PROBE_ARGS, probe_menu)
    for sig in set(run.failures) - before:
        run.failures[sig]["payload"]["probe"] = True
    run.functions = loader.function_lines(loader.load(), API_FUNCS)
    run.bounds = dict(pids=w_args["pids"], contents=[len(c) for c in w_args["contents"]], formats=w_args["formats"],
                      cids="digests of the contents + one never-stored cid", calls=res[0][2],
                      state="arbitrary state satisfying Inv (symbolic bind/order/object/metadata/directory variables)")
    run.explanation = ("Inductive step for C05: for every state satisfying the representation invariant Inv (z3 "
                       "variables) and every call of the menu, the real method is executed over the symbolic file-system "
                       "model; z3 proves Inv(post), post = reference-model(pre, call) and the documented result class "
                       "for all untouched state at once. The empty store satisfies Inv, so histories of any length "
                       "inside the universe are covered. Instance state is not part of Inv: instead, after one call of "
                       "each method a fixed follow-up history touching every method must give identical results on the "
                       "instance that served the call and on a fresh instance over a copy of the same store.")
    run.outside = ["identifiers/contents outside the universe", "more than |P| simultaneously bound pids",
                   "files placed in the store by hand"]
    run.need("a call was rejected as already-existing", run.reach["exists"] > 0)
    run.need("a delete of the last reference", run.reach["ok"] > 0)
    return run.finish()
