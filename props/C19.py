"""C19 - the two documented ways of storing an object converge (relational step on two copies of one symbolic state)."""
import hashlib
import z3
from props.common import *   # noqa
from engine.pathsym import PathSym, par_explore
from engine.universe import World
from engine import symfs

VARV, PIDV, KV = z3.Int("variant"), z3.Int("pid"), z3.Int("content")


def variants(c):
    n = len(c)
    h = lambda a: hashlib.new(a, c).hexdigest()
    wrong = lambda a: ("0" if h(a)[0] != "0" else "1") + h(a)[1:]
    return [
        ("absent", None, None, None, True),
        ("correct, default algorithm", h("sha256"), "SHA-256", n, True),
        ("correct checksum only", h("md5"), "MD5", None, True),
        ("correct, non-default algorithm", h("sha224"), "SHA-224", n, True),
        ("correct, upper-case, non-default algorithm", h("sha3_256").upper(), "sha3_256", n, True),
        ("correct, upper-case, default algorithm", h("sha1").upper(), "SHA-1", n, True),
        ("wrong checksum", wrong("sha256"), "SHA-256", n, False),
        ("wrong checksum, non-default algorithm", wrong("blake2b"), "blake2b", n, False),
        ("wrong checksum: the SHA-1 digest of the content labelled MD5", h("sha1"), "MD5", n, False),
        ("wrong size", h("sha256"), "SHA-256", n + 1, False),
        ("wrong size and checksum", wrong("sha256"), "SHA-256", n + 1, False),
        # the one-call form may also be given an additional algorithm: the same text as the checksum algorithm, the
        # store's own algorithm in its hashlib spelling, another one
        ("wrong checksum, additional algorithm = checksum algorithm = store algorithm", wrong("sha256"), "sha256", n, False, "sha256"),
        ("wrong checksum, additional algorithm = checksum algorithm", wrong("sha224"), "sha224", n, False, "sha224"),
        ("correct, additional algorithm = checksum algorithm = store algorithm", h("sha256"), "sha256", n, True, "sha256"),
        ("wrong checksum, other additional algorithm", wrong("md5"), "md5", None, False, "sha3_256"),
    ]


def both(ps, w):
    i = ps.choose(PIDV, 0, w.NP)
    k = ps.choose(KV, 0, w.NK)
    vs = variants(w.contents[k])
    vn = ps.choose(VARV, 0, len(vs))
    name, ck, algo, size, valid = vs[vn][:5]
    addl = vs[vn][5] if len(vs[vn]) > 5 else None
    pid = w.pids[i]
    bad = []

    def outcome(fn):
        try:
            return "ok", fn()
        except symfs.Crash:
            raise
        except Exception as e:   # noqa
            return type(e).__name__, e

    # ---- A: all in one
    w.build(ps)
    pre = w.pre()
    sA = w.store()
    rA, vA = outcome(lambda: sA.store_object(pid, w.src(k), addl, ck, algo, size))
    postA = w.post()
    # ---- B: in steps, on a second copy of the same symbolic state
    w.build(ps)
    sB = w.store()

    def steps():
        om = sB.store_object(None, w.src(k))
        if ck is not None:
            sB.delete_if_invalid_object(om, ck, algo, size)
        sB.tag_object(pid, om.cid)
        return om
    rB, vB = outcome(steps)
    postB = w.post()
    nob = 0
    for name_, post in (("one-call", postA), ("in-steps", postB)):
        for p in post["problems"]:
            if p[0] in ("tmp-residue", "delete-marker-residue", "foreign-file", "object-bytes-changed"):
                bad.append(("%s:%s" % (name_, p[0]), p[1:]))
        ok4, _ = ps.valid(step.c04_formula(w, pre, post))
        nob += 1
        if not ok4:
            bad.append(("%s:referenced-object-disturbed" % name_, ""))
    for name_, inst in (("one-call", sA), ("in-steps", sB)):
        for p in w.instance_problems(inst):
            bad.append(("%s:%s" % (name_, p[0]), p[1:]))
    clsA, clsB = w.classify(vA) if rA != "ok" else "ok", w.classify(vB) if rB != "ok" else "ok"
    bound = pre["bind"][i] >= 0
    if valid:
        if clsA != clsB or clsA not in ("ok", "exists"):
            bad.append(("outcomes-differ", rA, rB))
        else:
            okb, _ = ps.valid(bound if clsA == "exists" else z3.Not(bound))
            nob += 1
            if not okb:
                bad.append(("outcome-not-implied-by-state", clsA))
            if clsA == "ok":
                if vA.cid != vB.cid or vA.obj_size != vB.obj_size:
                    bad.append(("reported-cid-or-size-differ", (vA.cid, vA.obj_size), (vB.cid, vB.obj_size)))
                if {a: vA.hex_digests.get(a) for a in FIVE} != {a: vB.hex_digests.get(a) for a in FIVE}:
                    bad.append(("reported-default-digests-differ", ""))
            oke, _ = ps.valid(w.state_eq(postA, postB))
            nob += 1
            if not oke:
                bad.append(("final-states-differ", ""))
            oki, _ = ps.valid(z3.And(w.inv_post(postA), w.inv_post(postB)))
            nob += 1
            if not oki:
                bad.append(("bookkeeping-not-exact", ""))
    else:
        if rA not in ("NonMatchingChecksum", "NonMatchingObjSize") or rA != rB:
            bad.append(("mismatch-kinds-differ", rA, rB))
        for name_, post in (("one-call", postA), ("in-steps", postB)):
            oku, _ = ps.valid(post["bind"][i] == pre["bind"][i])
            nob += 1
            if not oku:
                bad.append(("%s:pid-binding-changed-by-rejected-store" % name_, ""))
    rec = dict(variant=name, pid=pid, k=k, rA=rA, rB=rB, bad=bad, nob=nob)
    if bad:
        rec["vals"] = ps.model_values(w.statevars + [VARV, PIDV, KV])
        rec["relation"] = step._rel_pid(w, rec["vals"], i) + ", content object %s" % (
            "present" if rec["vals"].get("obj_%d" % k) else "absent")
    return rec


def w_args_for(tier):
    a = universe(tier, formats=False)
    a["sym_dirs"] = False
    return a


def big_args():
    return dict(pids=["a", "b"], contents=[C_ONE, big_bytes(70001)], formats=[None], sym_dirs=False, blksize=4096)


def replay(tier, payload):
    a = dict(big_args() if payload.get("large") else w_args_for(tier), mode="native")
    w = World(**a)
    try:
        pins = []
        for v in w.statevars + [VARV, PIDV, KV]:
            if str(v) in payload["vals"]:
                x = payload["vals"][str(v)]
                pins.append(v == (z3.BoolVal(x) if isinstance(x, bool) else z3.IntVal(x)))
        ps = PathSym(w.inv() + pins)
        recs = ps.explore(lambda p: both(p, w))
        r = recs[0]
        hit = [b for b in r["bad"] if b[0] in payload["clauses"]]
        return bool(hit), "native replay on two real stores built by the same history %s: variant=%s one-call=%s in-steps=%s failing=%s" % (
            getattr(w, "history", []), r["variant"], r["rA"], r["rB"], r["bad"])
    finally:
        w.cleanup()


def main(tier, replay_payload=None):
    if replay_payload is not None:
        return replay(tier, replay_payload)
    run = report.Run("C19", tier, technique="pathsym relational step: both procedures on two copies of one symbolic "
                     "state inside one path; z3 validity of post_A = post_B")
    run.replayer = lambda payload: replay(tier, payload)
    a = w_args_for(tier)

    def worker(job):
        vn, large = job
        w = World(**(big_args() if large else a))
        ps = PathSym(w.inv() + [VARV == vn] + ([KV == 1] if large else []))
        recs = ps.explore(lambda p: both(p, w))
        return recs, ps.st.as_dict(), large
    from engine import battery
    battery.validate(run)
    nv = len(variants(C_ONE))
    for recs, st, large in par_explore(worker, [(v, False) for v in range(nv)] + [(v, True) for v in range(nv)]):
        run.add_stats(st)
        for r in recs:
            run.reach[r["rA"]] += 1
            run.case((r["variant"], r["rA"], r["rB"]), dict(variant=r["variant"], one_call=r["rA"], in_steps=r["rB"]))
            run.obligations += r["nob"]
            run.discharged += r["nob"] - min(r["nob"], len(r["bad"]))
            if r["bad"]:
                cl = sorted(set(b[0] for b in r["bad"]))
                sig = "validation data %s :: %s :: one-call=%s in-steps=%s :: pre-state: %s%s" % (
                    r["variant"], "+".join(cl), r["rA"], r["rB"], r["relation"], " (70001-byte content)" if large else "")
                run.fail(sig, dict(variant=r["variant"], failing=r["bad"], pre_state=r["vals"]),
                         dict(harness="c19", vals=r["vals"], clauses=cl, large=large))
    run.functions = loader.function_lines(loader.load(), API_FUNCS)
    run.bounds = dict(pids=a["pids"], contents=[len(c) for c in a["contents"]], validation=[v[0] for v in variants(C_ONE)],
                      large_content="70001 bytes, 4096-byte blocks, two pids",
                      state="arbitrary Inv state (same symbolic variables for both copies)")
    run.explanation = ("From one symbolic Inv state two copies of the store are built inside one path; copy A runs "
                       "store_object(pid, data, checksum, algorithm, size), copy B runs store_object(data), "
                       "delete_if_invalid_object, tag_object. Correct/absent validation data: same outcome, same cid, "
                       "size and default digests, and z3 proves post_A = post_B (untouched cells are the same "
                       "variables). Incorrect data: same mismatch class, pid binding unchanged in both, no referenced "
                       "object disturbed (C04 formula on both).")
    run.outside = ["identifiers/contents outside the universe"]
    run.need("both procedures succeeded", run.reach["ok"] > 0)
    run.need("mismatch reached", run.reach["NonMatchingChecksum"] > 0 and run.reach["NonMatchingObjSize"] > 0)
    return run.finish()
