"""E1 lemmas for C17: the argument checkers on symbolic values (CrossHair over the real static methods)."""
from typing import Optional
from engine import xh, loader, symfs

WS = "".join(chr(c) for c in range(0x110000) if chr(c).isspace())


def _load():
    M = loader.load("filehashstore.py")
    sh = symfs.Shim(symfs.FS())
    M.logging = sh.logging
    M.inspect = sh.inspect
    return M


def kernels(tier):
    M = _load()
    FHS = M.FileHashStore
    n = 4 if tier == "thorough" else 3
    obj = FHS.__new__(FHS)
    obj.sysmeta_ns = "ns"
    obj.algorithm = "sha256"
    obj.default_algo_list = ["md5", "sha1", "sha256", "sha384", "sha512"]
    obj.fhs_logger = M.logging.getLogger("x")

    def check_string(s: Optional[str]):
        if s is not None and len(s) > n:
            return "skip"
        want = s is not None and len(s) > 0 and not any(c in WS for c in s)
        try:
            FHS._check_string(s, "pid")
            got = True
        except ValueError:
            got = False
        return got == want

    def check_integer(x: Optional[int]):
        want = x is None or x >= 1
        try:
            FHS._check_integer(x)
            got = True
        except ValueError:
            got = False
        return got == want

    def check_format(f: Optional[str]):
        if f is not None and len(f) > n:
            return "skip"
        blank = f is not None and len(f) > 0 and all(c in WS for c in f)
        try:
            r = obj._check_arg_format_id(f, "m")
        except ValueError:
            return blank
        return (not blank) and r == ("ns" if f is None else f)

    def pairing(checksum: Optional[str], algo_given: bool, add_given: bool):
        if checksum is not None and len(checksum) > 2:
            return "skip"
        algo = "SHA-1" if algo_given else None
        add = "sha224" if add_given else None
        valid_sum = checksum is not None and len(checksum) > 0 and not any(c in WS for c in checksum)
        want_ok = (checksum is None and algo is None) or (algo is not None and valid_sum)
        try:
            a, c = obj._check_arg_algorithms_and_checksum(add, checksum, algo)
        except ValueError:
            return not want_ok
        return want_ok and a == add and c == ("sha1" if algo_given else None)

    F = ["FileHashStore._check_string", "FileHashStore._check_integer", "FileHashStore._check_arg_format_id",
         "FileHashStore._check_arg_algorithms_and_checksum", "FileHashStore._clean_algorithm"]
    fl = loader.function_lines(M, F)
    return [
        xh.Kernel("check_string", check_string, 90, 10, fl[:1], "Optional[str], len <= %d, all of Unicode" % n),
        xh.Kernel("check_integer", check_integer, 30, 10, fl[1:2], "Optional[int], unbounded"),
        xh.Kernel("check_format", check_format, 90, 10, fl[2:3], "Optional[str], len <= %d" % n),
        xh.Kernel("checksum_pairing", pairing, 90, 10, fl[3:], "Optional[str] checksum len <= 2 x algorithm given/absent x additional given/absent"),
    ]


def lemmas(run, tier):
    xh.run_kernels(run, "C17", kernels(tier))
