"""Structured spellings of the 12 supported algorithm names: canonical name x case mask x separator choice."""
import itertools

# canonical hashlib name -> (head letters/digits, tail, whether an empty separator keeps the meaning)
PARTS = {
    "md5": ("md5", "", None), "sha1": ("sha", "1", True), "sha224": ("sha", "224", True),
    "sha256": ("sha", "256", True), "sha384": ("sha", "384", True), "sha512": ("sha", "512", True),
    "sha3_224": ("sha3", "224", False), "sha3_256": ("sha3", "256", False), "sha3_384": ("sha3", "384", False),
    "sha3_512": ("sha3", "512", False), "blake2b": ("blake2b", "", None), "blake2s": ("blake2s", "", None),
}
DATAONE = {"md5": "MD5", "sha1": "SHA-1", "sha256": "SHA-256", "sha384": "SHA-384", "sha512": "SHA-512"}


def squash(name):
    return name.lower().replace("-", "").replace("_", "")


def masks(word, tier):
    letters = [i for i, ch in enumerate(word) if ch.isalpha()]
    if tier == "thorough":
        combos = itertools.product([0, 1], repeat=len(letters))
    else:
        combos = [tuple(0 for _ in letters), tuple(1 for _ in letters), tuple(i % 2 for i in range(len(letters)))]
    out = []
    for c in combos:
        w = list(word)
        for pos, up in zip(letters, c):
            w[pos] = w[pos].upper() if up else w[pos].lower()
        out.append("".join(w))
    return sorted(set(out))


def spellings(canon, tier):
    """accepted-by-contract spellings of one algorithm (DataONE and hashlib canonical forms, case and '-'/'_' variants)"""
    head, tail, empty_ok = PARTS[canon]
    seps = [""] if empty_ok is None else (["-", "_", ""] if empty_ok else ["-", "_"])
    out = []
    for sep in seps:
        for m in masks(head + (sep + tail if tail else ""), tier):
            out.append(m)
    return sorted(set(out))
