"""C10 - a crash harms nothing else and never wedges the interrupted pid (symbolic crash point + recovery)."""
from props.common import *   # noqa
from engine import crash


def menu_fn(w):
    m = []
    for i in range(w.NP):
        for k in range(w.NK):
            m.append(step.StoreObj(i, k))
        for j in range(w.NC):
            m.append(step.Tag(i, j))
        m.append(step.Delete(i))
        for f in w.formats:
            for v in range(w.ND):
                m.append(step.StoreMeta(i, v, f))
            if f is not None:
                m.append(step.DeleteMeta(i, f))
        m.append(step.DeleteMeta(i, None, all_docs=True))
    return m


def c10_universe(tier):
    if tier == "thorough":
        return dict(pids=[P_A, P_AB, "b"], contents=[b"", C_MULTI], formats=[None, "c"], docs=(b"", D_MULTI))
    # the first content and the first document are empty: a file of size 0 is legitimate data
    return dict(pids=[P_A, P_AB], contents=[b"", C_MULTI], formats=[None, "c"], sym_dirs=False, docs=(b"", D_MULTI))


def fold(run, results, prefix, w_args):
    for recs, st, nmenu in results:
        run.add_stats(st)
        for r in recs:
            if r["kind"] != "crash":
                run.reach["completed:" + r["res"]] += 1
                run.case(None)
                continue
            run.reach["crash at %s of %s" % r["site"]] += 1
            run.case((r["roles"], r["site"]), dict(call=r["call"], crash_before_operation=r["at"], site=r["site"]))
            for o in r["observations"]:
                run.reach["observation:" + o] += 1
            mine = [b for b in r["bad"] if b[0].startswith(prefix)]
            run.obligations += r["nob"] + 1
            run.discharged += r["nob"] + 1 - min(len(mine), r["nob"] + 1)
            if mine:
                cl = sorted(set(b[0] for b in mine))
                sig = "%s :: crash before %s of a %s :: %s :: pre-state: %s" % (
                    r["roles"], r["site"][0], r["site"][1], "+".join(cl), r["relation"])
                run.fail(sig, dict(call=r["call"], crash_before_operation=r["at"], site=r["site"], failing=r["bad"],
                                   pre_state=r["vals"]),
                         dict(harness="crash", vals=r["vals"], clauses=[prefix]))


def main(tier, replay_payload=None):
    w_args = c10_universe(tier)
    if replay_payload is not None:
        return crash.replay_crash(w_args, menu_fn, replay_payload["vals"], replay_payload["clauses"])
    run = report.Run("C10", tier, technique="pathsym with a symbolic crash point (crash_at) over the frozen file-system "
                     "model, recovery script on a fresh instance; frame discharged by z3")
    run.replayer = lambda p: crash.replay_crash(w_args, menu_fn, p["vals"], p["clauses"])
    res = crash.explore_crashes(w_args, menu_fn)
    from engine import battery
    battery.validate(run)
    fold(run, res, "C10:", w_args)
    run.functions = loader.function_lines(loader.load(), API_FUNCS)
    run.bounds = dict(pids=w_args["pids"], contents=[len(c) for c in w_args["contents"]], formats=w_args["formats"],
                      calls=res[0][2], crash="one crash per call, before any mutating or file-opening operation",
                      state="arbitrary Inv state" + (" incl. directory existence (mkdir crash sites)" if w_args.get("sym_dirs", True) else "; all shard directories already exist (thorough tier makes them symbolic)"))
    run.explanation = ("crash_at is a z3 integer: at every operation of the environment model the explorer forks on "
                       "crash_at == i, so the solver enumerates exactly the feasible (state, call, crash point) classes. "
                       "After the crash the model is frozen (finally/except code cannot run), a fresh instance is opened "
                       "and z3 proves that every other pid's reference, list membership (where it is bound), metadata "
                       "and object are unchanged; the interrupted pid is served with the right bytes or a not-found / "
                       "inconsistent error; delete_object (may say unknown) then store_object succeeds and the pid "
                       "is retrievable; the recovery harms no other pid. Duplicate / partial trailing lines of a cid "
                       "list after a crash inside its in-place rewrite are recorded as observations.")
    run.outside = ["double crashes, crashes during recovery", "torn single write(2), power-loss reordering"]
    run.need("crash at a rename reached", any(k.startswith("crash at rename") for k in run.reach))
    run.need("crash at the replacement of a reference list reached",
             any(k.startswith("crash at rename of cid-list") or k.startswith("crash at truncate") for k in run.reach))
    return run.finish()
