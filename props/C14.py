"""C14 - store configuration is pinned at creation (solver-enumerated configuration selectors over the real
constructor running on the environment model; refusal = error and zero mutating operations on the trace)."""
import os
import shutil
import z3
from props.common import *   # noqa
from engine import symfs
from engine.pathsym import PathSym, par_explore
from engine.universe import scratch_root

ALGOS = ["MD5", "SHA-1", "SHA-256", "SHA-384", "SHA-512"]
BADALGOS = ["sha256", "SHA256", "SHA-224", "BLAKE2B", "MD-5", "dou_algo"]
# further unsupported names, tried at creation only: fragments and joins of the accepted names, stray whitespace
FRESH_BAD = ["SHA-25", "SHA", "MD", "5", "-", "", "SHA-256 ", " MD5", "MD5, SHA-1", "sha-256", "SHA-1\n"]
NSS = ["https://ns.dataone.org/service/types/v2.0#SystemMetadata", "ns2 #v2: x"]      # the second one needs quoting in YAML
D1, W1, A1, N1 = z3.Int("c_depth"), z3.Int("c_width"), z3.Int("c_algo"), z3.Int("c_ns")
D2, W2, A2, N2 = z3.Int("r_depth"), z3.Int("r_width"), z3.Int("r_algo"), z3.Int("r_ns")
ED, EW, POP, SHAPE = z3.Int("enc_depth"), z3.Int("enc_width"), z3.Bool("populated"), z3.Int("shape")
ENC = ["int", "str", "str-padded"]
SHAPES = ["all keys", "missing store_depth", "missing store_algorithm", "store_width is None", "extra key",
          "store_depth not a number", "missing store_metadata_namespace", "store_path only"]
ALLV = [D1, W1, A1, N1, D2, W2, A2, N2, ED, EW, POP, SHAPE]
CONTENT, DOC = b"0123456789ab", b"<meta/>"


def enc(v, how):
    return v if how == "int" else (str(v) if how == "str" else " %d " % v)


def domain(tier):
    c = [D1 >= 1, D1 <= 5, W1 >= 1, W1 <= 4, A1 >= 0, A1 < len(ALGOS), N1 >= 0, N1 < 2,
         D2 >= 1, D2 <= 5, W2 >= 1, W2 <= 4, A2 >= 0, A2 < len(ALGOS) + len(BADALGOS), N2 >= 0, N2 < 2,
         ED >= 0, ED < len(ENC), EW >= 0, EW < len(ENC), SHAPE >= 0, SHAPE < len(SHAPES)]
    ndiff = z3.Sum([z3.If(D1 != D2, 1, 0), z3.If(W1 != W2, 1, 0), z3.If(A1 != A2, 1, 0), z3.If(N1 != N2, 1, 0)])
    nodd = z3.Sum([z3.If(ED != 0, 1, 0), z3.If(EW != 0, 1, 0), z3.If(SHAPE != 0, 1, 0)])
    if tier == "thorough":
        c += [z3.Or(z3.And(ndiff <= 3, nodd == 0), z3.And(ndiff <= 2, nodd <= 1), z3.And(ndiff <= 1, nodd <= 2))]
    else:
        c += [ndiff <= 2, nodd <= 1, z3.Implies(ndiff == 2, nodd == 0), D1 <= 3, D2 <= 4, W1 <= 3]
    return c


def props_for(root, d, w, a, n, ed="int", ew="int", shape="all keys"):
    algo = (ALGOS + BADALGOS + FRESH_BAD)[a]
    p = dict(store_path=root, store_depth=enc(d, ed), store_width=enc(w, ew), store_algorithm=algo,
             store_metadata_namespace=NSS[n])
    if shape == "missing store_depth":
        del p["store_depth"]
    elif shape == "missing store_algorithm":
        del p["store_algorithm"]
    elif shape == "store_width is None":
        p["store_width"] = None
    elif shape == "extra key":
        p["store_extra"] = "x"
    elif shape == "store_depth not a number":
        p["store_depth"] = "three"
    elif shape == "missing store_metadata_namespace":
        del p["store_metadata_namespace"]
    elif shape == "store_path only":
        p = dict(store_path=root)
    return p


def factory_opener(M):
    """open the store the documented way, through HashStoreFactory.get_hashstore (a fresh copy of hashstore.py per
    pair stands for one process; the factory resolves 'hashstore.filehashstore' to the module under test)"""
    import importlib.machinery
    import sys as _sys
    Fm = loader.load("hashstore.py")
    name = "hashstore.filehashstore"

    def opener(props):
        saved = _sys.modules.get(name)
        if getattr(M, "__spec__", None) is None:
            M.__spec__ = importlib.machinery.ModuleSpec(name, None)
        _sys.modules[name] = M
        try:
            return Fm.HashStoreFactory.get_hashstore(name, "FileHashStore", props)
        finally:
            if saved is not None:
                _sys.modules[name] = saved
            else:
                _sys.modules.pop(name, None)
    return opener


def run_pair(ps, M, shim, cache, native_root=None, via_factory=False):
    d1, w1 = ps.choose(D1, 1, 6), ps.choose(W1, 1, 5)
    a1, n1 = ps.choose(A1, 0, len(ALGOS)), ps.choose(N1, 0, 2)
    pop = ps.decide(POP)
    key = (d1, w1, a1, n1, pop)
    bad = []
    # ---- creation (cached per creation configuration in the model; rebuilt natively)
    opener = factory_opener(M) if via_factory else M.FileHashStore
    if native_root is None:
        if via_factory or key not in cache:
            F = symfs.FS(symfs.ModelBackend())
            F.b.dirs["/src"] = True
            F.b.create("/src/c", CONTENT)
            F.b.create("/src/d", DOC)
            shim.fs = F
            s = opener(props_for("/s", d1, w1, a1, n1))
            cid = None
            if pop:
                cid = s.store_object("pid.1", "/src/c").cid
                s.store_metadata("pid.1", "/src/d")
            cache[key] = (F.b, cid)
        base, cid = cache[key]
        if not via_factory:
            F = symfs.FS(base.clone_concrete())
            shim.fs = F
        else:
            F.trace = []
        root, srcc = "/s", "/src/c"
    else:
        shutil.rmtree(native_root, ignore_errors=True)
        os.makedirs(native_root + "/src")
        with open(native_root + "/src/c", "wb") as fh:
            fh.write(CONTENT)
        with open(native_root + "/src/d", "wb") as fh:
            fh.write(DOC)
        root = native_root + "/s"
        s = opener(props_for(root, d1, w1, a1, n1))
        cid = None
        if pop:
            cid = s.store_object("pid.1", native_root + "/src/c").cid
            s.store_metadata("pid.1", native_root + "/src/d")
        F = None
        before = symfs.RealBackend(native_root).snapshot("/"), symfs.RealBackend(native_root).all_dirs("/")
    # ---- re-opening
    d2, w2 = ps.choose(D2, 1, 6), ps.choose(W2, 1, 5)
    a2, n2 = ps.choose(A2, 0, len(ALGOS) + len(BADALGOS)), ps.choose(N2, 0, 2)
    ed, ew = ENC[ps.choose(ED, 0, len(ENC))], ENC[ps.choose(EW, 0, len(ENC))]
    shape = SHAPES[ps.choose(SHAPE, 0, len(SHAPES))]
    p2 = props_for(root, d2, w2, a2, n2, ed, ew, shape)
    same = (d1, w1, a1, n1) == (d2, w2, a2, n2)
    expect_ok = same and shape in ("all keys", "extra key")
    try:
        s2 = opener(p2)
        res = "accepted"
    except symfs.Crash:
        raise
    except Exception as e:   # noqa
        res = type(e).__name__
        s2 = None
    if expect_ok:
        if res != "accepted":
            bad.append(("equal-configuration-refused", res))
        elif pop:
            try:
                st = s2.retrieve_object("pid.1")
                data = st.read()
                st.close()
                st = s2.retrieve_metadata("pid.1")
                doc = st.read()
                st.close()
                if data != CONTENT or doc != DOC:
                    bad.append(("existing-data-not-visible-as-before", ""))
                if s2.get_hex_digest("pid.1", ALGOS[a1]) != cid:
                    bad.append(("existing-object-addressed-differently", ""))
            except Exception as e:   # noqa
                bad.append(("existing-data-not-visible-as-before", type(e).__name__))
    else:
        want = {"missing store_depth": ("KeyError",), "missing store_algorithm": ("KeyError",),
                "missing store_metadata_namespace": ("KeyError",), "store_path only": ("KeyError",),
                "store_width is None": ("ValueError",), "store_depth not a number": ("ValueError",)}.get(
                    shape, ("ValueError",))
        if res == "accepted":
            bad.append(("mismatching-configuration-accepted", ""))
        elif res not in want:
            bad.append(("refused-with-undocumented-error-class", res))
        if F is not None:
            mut = [t for t in F.trace if t[0] in symfs.MUTATING]
            if mut:
                bad.append(("refusal-created-or-modified-files", mut[:3]))
        else:
            after = symfs.RealBackend(native_root).snapshot("/"), symfs.RealBackend(native_root).all_dirs("/")
            if after != before:
                bad.append(("refusal-created-or-modified-files", "tree changed"))
    rec = dict(create=(d1, w1, ALGOS[a1], n1, "populated" if pop else "empty"),
               reopen=(enc(d2, ed), enc(w2, ew), (ALGOS + BADALGOS)[a2], n2, shape), res=res, expect_ok=expect_ok, bad=bad,
               sel={"c_depth": d1, "c_width": w1, "c_algo": a1, "c_ns": n1, "populated": bool(pop), "r_depth": d2,
                    "r_width": w2, "r_algo": a2, "r_ns": n2, "enc_depth": ENC.index(ed), "enc_width": ENC.index(ew),
                    "shape": SHAPES.index(shape)})
    if bad:
        rec["vals"] = ps.model_values(ALLV)
    return rec


def run_fresh(ps, M, shim, native_root=None):
    """creation on a fresh path: unsupported algorithm, or store directories without a configuration file"""
    a2 = ps.choose(A2, 0, len(ALGOS) + len(BADALGOS) + len(FRESH_BAD))
    stale = ps.decide(POP)       # reuse: True = data directories exist but no hashstore.yaml
    d2, w2 = ps.choose(D2, 1, 6), ps.choose(W2, 1, 5)
    bad = []
    if native_root is None:
        F = symfs.FS(symfs.ModelBackend())
        shim.fs = F
        root = "/s"
        if stale:
            for d in ("/s", "/s/objects", "/s/objects/ab"):
                F.b.mkdir1(d)
            F.b.create("/s/objects/ab/cdef", b"old")
        F.trace = []
    else:
        shutil.rmtree(native_root, ignore_errors=True)
        os.makedirs(native_root)
        root = native_root + "/s"
        if stale:
            os.makedirs(root + "/objects/ab")
            with open(root + "/objects/ab/cdef", "wb") as fh:
                fh.write(b"old")
        before = symfs.RealBackend(native_root).snapshot("/"), symfs.RealBackend(native_root).all_dirs("/")
    try:
        M.FileHashStore(props_for(root, d2, w2, a2, 0))
        res = "accepted"
    except symfs.Crash:
        raise
    except Exception as e:   # noqa
        res = type(e).__name__
    expect_ok = a2 < len(ALGOS) and not stale
    if expect_ok and res != "accepted":
        bad.append(("valid-new-store-refused", res))
    if not expect_ok:
        if res == "accepted":
            bad.append(("unsupported-algorithm-accepted" if not stale else "store-data-without-configuration-accepted", ""))
        elif res not in (("RuntimeError",) if stale else ("ValueError",)):
            bad.append(("refused-with-undocumented-error-class", res))
        if native_root is None:
            mut = [t for t in F.trace if t[0] in symfs.MUTATING]
            if mut:
                bad.append(("refusal-created-or-modified-files", mut[:3]))
        else:
            after = symfs.RealBackend(native_root).snapshot("/"), symfs.RealBackend(native_root).all_dirs("/")
            if after != before:
                bad.append(("refusal-created-or-modified-files", "tree changed"))
    rec = dict(create=("fresh path", "stale data directories" if stale else "nothing there"),
               reopen=(d2, w2, (ALGOS + BADALGOS + FRESH_BAD)[a2]), res=res, expect_ok=expect_ok, bad=bad)
    if bad:
        rec["vals"] = ps.model_values(ALLV)
    return rec


def replay(tier, payload):
    import logging
    logging.disable(logging.CRITICAL)
    MN = loader.load("filehashstore.py")
    root = scratch_root()
    try:
        fn = run_fresh if payload.get("fresh") else run_pair
        r = None
        # one unpatched module and one store path for the whole history, as in one long-running process
        for vals in list(payload["vals"].get("history") or []) + [payload["vals"]]:
            pins = [v == (z3.BoolVal(vals[str(v)]) if isinstance(vals[str(v)], bool) else z3.IntVal(vals[str(v)]))
                    for v in ALLV if str(v) in vals]
            ps = PathSym(pins)
            recs = ps.explore(lambda p: fn(p, MN, None, {}, native_root=root, via_factory=bool(payload.get("factory")))
                              if fn is run_pair else fn(p, MN, None, native_root=root))
            r = recs[0]
        hit = [b for b in r["bad"] if b[0] in payload["clauses"]]
        return bool(hit), "native run (unpatched code, real file system): create %s, open with %s -> %s; failing=%s" % (
            r["create"], r["reopen"], r["res"], r["bad"])
    finally:
        shutil.rmtree(root, ignore_errors=True)


def main(tier, replay_payload=None):
    if replay_payload is not None:
        return replay(tier, replay_payload)
    run = report.Run("C14", tier, technique="pathsym enumeration of configuration selector vectors (creation x reopening, "
                     "constrained by z3) over the real constructor on the environment model; zero-mutation trace check")
    run.replayer = lambda p: replay(tier, p)

    def worker(split):
        M = loader.load("filehashstore.py")
        shim = symfs.Shim()
        shim.install(M)
        cache = {}
        if split == "fresh":
            ps = PathSym([A2 >= 0, D2 >= 1, D2 <= 2, W2 >= 1, W2 <= 2])
            return ps.explore(lambda p: run_fresh(p, M, shim)), ps.st.as_dict(), True
        if split == "factory":
            # creation and reopening both through the factory, in one process: one populated 3/2/SHA-256 store,
            # reopened with every configuration that differs in at most one key
            ndiff = z3.Sum([z3.If(D1 != D2, 1, 0), z3.If(W1 != W2, 1, 0), z3.If(A1 != A2, 1, 0), z3.If(N1 != N2, 1, 0)])
            ps = PathSym(domain(tier) + [D1 == 3, W1 == 2, A1 == 2, N1 == 0, POP, ED == 0, EW == 0, SHAPE == 0, ndiff <= 1])
            return ps.explore(lambda p: run_pair(p, M, shim, {}, via_factory=True)), ps.st.as_dict(), "factory"
        a1, n1 = split
        ps = PathSym(domain(tier) + [A1 == a1, N1 == n1])
        seen = []

        def one(p):
            r = run_pair(p, M, shim, cache)
            if r["bad"]:
                # the process-level history that preceded this pair (same module, same store path)
                r["vals"]["history"] = [seen[0], seen[-1]] if len(seen) > 1 else list(seen)
            seen.append(r.pop("sel"))
            return r
        return ps.explore(one), ps.st.as_dict(), False
    splits = [(a, n) for a in range(len(ALGOS)) for n in range(2)] + ["fresh", "factory"]
    for recs, st, fresh in par_explore(worker, splits):
        run.add_stats(st)
        for r in recs:
            run.reach[("accepted" if r["res"] == "accepted" else "refused:" + r["res"])] += 1
            run.case((r["create"], r["reopen"]) if len(run.distinct) < 200000 else None,
                     dict(created=r["create"], opened_with=r["reopen"], outcome=r["res"]))
            run.oblige(not r["bad"])
            if r["bad"]:
                cl = sorted(set(b[0] for b in r["bad"]))
                diff = "fresh path" if fresh is True else ("reopen through the factory" if fresh == "factory" else "reopen")
                sig = "%s :: %s :: outcome=%s :: created %s, opened with %s" % (
                    diff, "+".join(cl), r["res"], r["create"][2:] if not fresh else r["create"], r["reopen"][2:])
                run.fail(sig, dict(created=r["create"], opened_with=r["reopen"], outcome=r["res"], failing=r["bad"]),
                         dict(harness="c14", vals=r["vals"], clauses=cl, fresh=fresh is True, factory=fresh == "factory"))
    run.functions = loader.function_lines(loader.load(), [
        "FileHashStore.__init__", "FileHashStore._load_properties", "FileHashStore._write_properties",
        "FileHashStore._build_hashstore_yaml_string", "FileHashStore._verify_hashstore_properties",
        "FileHashStore._validate_properties", "FileHashStore._set_default_algorithms"])
    run.bounds = dict(creation="depth 1-5 (quick 1-3) x width 1-4 (quick 1-3) x 5 algorithms x 2 namespaces, empty or populated",
                      reopening="depth 1-5 x width 1-4 x (5 algorithms + %d unsupported names/spellings) x 2 namespaces x "
                                "int / str / padded-str encodings x %d property shapes" % (len(BADALGOS), len(SHAPES)),
                      constraint="quick: differs from the creation configuration in <= 2 keys with <= 1 odd encoding/shape; thorough: (<= 3 keys, 0 odd) or (<= 2 keys, <= 1 odd) or (<= 1 key, <= 2 odd)",
                      fresh_path="unsupported algorithm at creation; data directories without hashstore.yaml")
    run.explanation = ("Creation and reopening configurations are vectors of z3 selector variables constrained by a "
                       "difference budget; for every feasible vector the real constructor runs over the environment "
                       "model on an empty or populated store: accepted <=> equal after integer coercion (then all "
                       "existing data is retrievable and addressed as before); refused => documented error class and "
                       "no mutating file-system operation on the trace. Honest note: the variables are finite selectors; "
                       "the solver's contribution is the exhaustive enumeration of the constrained product.")
    run.outside = ["pairs differing in more keys than the budget", "non-string non-integer property values"]
    run.need("an equal configuration was accepted", run.reach["accepted"] > 0)
    run.need("a mismatch was refused", run.reach["refused:ValueError"] > 0)
    run.need("stale data directories were refused", run.reach["refused:RuntimeError"] > 0)
    return run.finish()
