"""C04 - no call ever removes an object that some pid still references; the last delete removes it."""
from props.common import *   # noqa

MINE = {"referenced-object-removed", "store-state:object-bytes-changed", "model:obj",
        # the claim over histories is inductive and rests on the bookkeeping invariant being closed
        "bookkeeping-not-exact", "store-state:unterminated-line", "store-state:dup-line", "store-state:foreign-line"}


# many (here: long) pids on one object: its reference list is longer than any buffer (> 8 KiB, > 2 blocks)
LONG = "p" * 4999
LONG_ARGS = dict(pids=[LONG + "q", LONG, "b"], contents=[C_ONE, C_MULTI], formats=[None], sym_dirs=False)


# canonically equivalent spellings of one text are two identifiers, each with its own reference
NORM_ARGS = dict(pids=["caf\u00e9", "cafe\u0301", "b"], contents=[C_ONE, C_MULTI], formats=[None], sym_dirs=False)


def long_menu(w):
    return object_menu(w, with_invalid=False, with_reads=True)


def main(tier, replay_payload=None):
    w_args = universe(tier)
    menu_fn = full_menu
    # an identifier and the same identifier behind a byte-order mark (not whitespace: a different identifier)
    bom_args = dict(NORM_ARGS, pids=["\ufeffb", "b"])
    parts = dict(main=(w_args, menu_fn), long=(LONG_ARGS, long_menu), norm=(NORM_ARGS, long_menu), bom=(bom_args, long_menu))
    if replay_payload is not None:
        return make_multi_replayer(parts)(replay_payload)
    run = report.Run("C04", tier, technique="pathsym inductive step; C04 as one z3 formula over all cids and pids")
    run.replayer = make_multi_replayer(parts)
    res = step.explore_steps(w_args, menu_fn)
    collect(run, res, MINE, w_args, menu_fn)
    collect(run, step.explore_steps(LONG_ARGS, long_menu), MINE, LONG_ARGS, long_menu, part="long")
    collect(run, step.explore_steps(NORM_ARGS, long_menu), MINE, NORM_ARGS, long_menu, part="norm")
    collect(run, step.explore_steps(bom_args, long_menu), MINE, bom_args, long_menu, part="bom")
    run.functions = loader.function_lines(loader.load(), API_FUNCS)
    run.bounds = dict(pids=w_args["pids"], contents=[len(c) for c in w_args["contents"]], formats=w_args["formats"],
                      long_reference_list="two 5000-character pids and a short one on one object (list > 8 KiB)",
                      calls=res[0][2], state="arbitrary Inv state, several pids may share one content")
    run.explanation = ("For every Inv state and every call (all nine methods, rejected calls and calls with wrong "
                       "validation data included) z3 proves  forall cid: (exists pid: bind'[pid]=cid) and obj[cid] => "
                       "obj'[cid] with unchanged bytes, over all untouched pids at once (their variables stay symbolic), "
                       "and obj' = model (the last delete removes the object, no other call does).")
    run.outside = ["identifiers outside the universe"]
    run.need("delete of a pid reached", run.reach["ok"] > 0)
    run.need("validation mismatch reached", run.reach["mismatch"] > 0)
    return run.finish()
