"""C12 - concurrent metadata operations are atomic and linearizable."""
import itertools
from props.common import *   # noqa
from engine import conc
from props.C07 import fold

W_ARGS = dict(pids=["a", "b"], contents=[C_ONE], formats=[None, "c", "d"], fake_cid=False,
              docs=[D_ONE, D_MULTI15])

INITS = [
    ("no document", {}),
    ("document (a,c) present", {"meta_0_1": 0}),
    ("documents (a,default) and (a,c) present", {"meta_0_0": 0, "meta_0_1": 0}),
    ("a bound to X, document (a,c) present", {"bind_0": 0, "obj_0": True, "meta_0_1": 0}),
]


def menu(w):
    return [step.StoreMeta(0, 0, "c"), step.StoreMeta(0, 1, "c"), step.RetrieveMeta(0, "c"), step.DeleteMeta(0, "c"),
            step.DeleteMeta(0, None, all_docs=True), step.Delete(0), step.StoreMeta(0, 1, None),
            step.RetrieveMeta(0, None)]


def scenarios_for(tier, triples=False):
    def fn(w):
        n = len(menu(w))
        combos = list(itertools.combinations_with_replacement(range(n), 2))
        if triples:
            combos = [(0, 1, 2), (1, 2, 3), (1, 3, 4), (1, 2, 5), (3, 3, 4), (0, 4, 4), (1, 6, 4), (2, 4, 5)]
        out = []
        for combo in combos:
            for iname, init in INITS:
                calls = [menu(w)[c] for c in combo]
                out.append(("%s || from: %s" % (" || ".join(c.label for c in calls), iname), init, calls))
        if not triples:
            # metadata document lock: two writers of one document, a writer of another document releases in between
            # (the condition is shared by all documents: a waiter must re-check after it is woken)
            calls = [step.StoreMeta(0, 0, "c"), step.StoreMeta(0, 1, "c"), step.StoreMeta(0, 1, None)]
            out.append(("%s || from: %s" % (" || ".join(c.label for c in calls), INITS[1][0]), INITS[1][1], calls))
            # the same for the two other places that wait for a document: delete_metadata of one format (two
            # deleters of one document, a writer of another document releases in between) and delete_metadata of
            # all formats (a writer holds one of the documents, a writer of another pid's document releases)
            calls = [step.DeleteMeta(0, "c"), step.DeleteMeta(0, "c"), step.StoreMeta(0, 1, None)]
            out.append(("%s || from: %s" % (" || ".join(c.label for c in calls), INITS[2][0]), INITS[2][1], calls))
            calls = [step.StoreMeta(0, 1, "c"), step.DeleteMeta(0, None, all_docs=True), step.StoreMeta(1, 0, "c")]
            out.append(("%s || from: %s" % (" || ".join(c.label for c in calls), INITS[2][0]), INITS[2][1], calls))
            # delete-all against the deletion of one of three documents (whichever comes first, in the middle or last
            # in the directory listing): afterwards no document of the pid may be left
            three = ("three documents of a present", {"meta_0_0": 0, "meta_0_1": 0, "meta_0_2": 1})
            for f in ("ns", "c", "d"):
                calls = [step.DeleteMeta(0, None, all_docs=True), step.DeleteMeta(0, f)]
                out.append(("%s || from: %s" % (" || ".join(c.label for c in calls), three[0]), three[1], calls))
            # a call that is *rejected* for its argument takes part: store_metadata of a path that does not exist, on
            # the pid and format whose document two deleters contend for (a rejected call holds and releases nothing)
            rejected = step.Raw("store_metadata(pid0, <missing path>, 'c')", "store_metadata(missing path)",
                                lambda w, s: s.store_metadata(w.pids[0], "/src/no-such-file", "c"), ["ValueError"])
            rejected.i = 0
            calls = [step.DeleteMeta(0, "c"), rejected, step.DeleteMeta(0, "c")]
            out.append(("%s || from: %s" % (" || ".join(c.label for c in calls), INITS[1][0]), INITS[1][1], calls))
            # unrelated documents that share nothing but directories: only the directories of (a,c) exist
            import posixpath
            needed = {posixpath.dirname(w.META[0][w.cell("c")])}
            sparse = dict(INITS[1][1])
            sparse.update({str(v): any(n == d or n.startswith(d + "/") for n in needed) for d, v in w.dirv.items()})
            for other in (step.StoreMeta(1, 0, "c"), step.StoreMeta(0, 0, None)):
                calls = [step.DeleteMeta(0, "c"), other]
                out.append(("%s || from: %s, no other shard directory exists" % (
                    " || ".join(c.label for c in calls), INITS[1][0]), sparse, calls))
        return out
    return fn


def claim_scenarios(tier):
    """the metadata-document list: two writers and two deleters of one document, with two preemptions in every tier
    (see C07.claim_scenarios)"""
    def fn(w):
        out = []
        for calls, init in (([step.StoreMeta(0, 0, "c"), step.StoreMeta(0, 1, "c")], INITS[1]),
                            ([step.DeleteMeta(0, "c"), step.DeleteMeta(0, "c")], INITS[1]),
                            ([step.DeleteMeta(0, None, all_docs=True), step.StoreMeta(0, 1, "c")], INITS[1])):
            out.append(("%s || from: %s (two preemptions)" % (" || ".join(c.label for c in calls), init[0]), init[1], calls))
        return out
    return fn


def main(tier, replay_payload=None):
    bound = 2 if tier == "thorough" else 1
    sf = scenarios_for(tier)

    def replayer(p):
        if p.get("claim"):
            return conc.replay_schedule(W_ARGS, claim_scenarios(tier), p["k"], p["log"], p["bound"], p["clauses"][0])
        fn = scenarios_for(tier, triples=True) if p.get("triples") else sf
        return conc.replay_schedule(W_ARGS, fn, p["k"], p["log"], p["bound"], p["clauses"][0])
    if replay_payload is not None:
        return replayer(replay_payload)
    run = report.Run("C12", tier, technique="pathsym with a symbolic schedule vector over a cooperative scheduler "
                     "(real methods in real threads); oracle = all sequential orders")
    run.replayer = replayer
    outs = conc.explore_scenarios(W_ARGS, sf, bound)
    from engine import battery
    battery.validate(run)
    fold(run, outs, "LIN:", bound)
    if bound < 2:
        before = set(run.failures)
        fold(run, conc.explore_scenarios(W_ARGS, claim_scenarios(tier), 2), "LIN:", 2)
        for sig in set(run.failures) - before:
            run.failures[sig]["payload"]["claim"] = True
    if tier == "thorough":
        outs3 = conc.explore_scenarios(W_ARGS, scenarios_for(tier, triples=True), 1)
        before = set(run.failures)
        fold(run, outs3, "LIN:", 1)
        for sig in set(run.failures) - before:
            run.failures[sig]["payload"]["triples"] = True
    run.functions = loader.function_lines(loader.load(), [
        "FileHashStore.store_metadata", "FileHashStore.retrieve_metadata", "FileHashStore.delete_metadata",
        "FileHashStore.delete_object", "FileHashStore._put_metadata", "FileHashStore._mktmpmetadata",
        "FileHashStore._delete", "FileHashStore._rename_path_for_deletion", "FileHashStore._get_file_paths",
        "FileHashStore._delete_marked_files"])
    from engine.universe import World
    run.bounds = dict(threads="2 (thorough: + 8 triples)", preemption_bound=bound, pid="a", formats=[None, "c"],
                      menu=[c.label for c in menu(World(**W_ARGS))], starting_states=[i[0] for i in INITS],
                      granularity="every lock acquire / condition wait / file-system operation / existence probe")
    run.explanation = ("Pairs of store_metadata(v0/v1), retrieve_metadata (reads the stream to the end inside its thread), "
                       "delete_metadata(format), delete_metadata(all) and delete_object on one pid run in real threads "
                       "under the cooperative scheduler; the schedule vector is symbolic and every feasible assignment "
                       "within the preemption bound is executed. Each call's result (reader: complete version or "
                       "not-found; writers/deleters: no error they cannot produce sequentially) and the final documents "
                       "must equal those of some sequential order computed by the real code.")
    run.outside = ["more preemptions than the bound", "more than 3 threads", "other processes"]
    return run.finish()
