"""C13 - I/O failures surface as errors and leave no half-bound pid (symbolic fault point / stickiness / errno)."""
from props.common import *   # noqa
from engine import fault
from props.C10 import menu_fn


def c13_universe(tier):
    if tier == "thorough":
        return dict(pids=[P_A, P_AB, "b"], contents=[C_ONE, C_MULTI], formats=[None, "c"], sym_dirs=True,
                    docs=(D_ONE, D_MULTI, D_ONE_ALT))
    return dict(pids=[P_A, P_AB], contents=[C_ONE, C_MULTI], formats=[None, "c"], sym_dirs="tied",
                docs=(D_ONE, D_MULTI, D_ONE_ALT))    # two documents of the same length: size says nothing


FAULTED_ARGS = dict(pids=["a", "b"], contents=[C_ONE], formats=[None, "c"], fake_cid=False)


def faulted_for(tier):
    """pairs that contend on one identifier, explored together with one I/O error injected at a symbolic global
    operation index: the failing call must still release and notify, the waiting call must not sleep forever"""
    def fn(w):
        def pairs():
            return [([step.StoreObj(0, 0), step.StoreObj(1, 0)], ("empty store", {})),
                    ([step.Delete(0), step.StoreObj(1, 0)], ("a bound to X", {"bind_0": 0, "obj_0": True})),
                    ([step.StoreMeta(0, 0, None), step.StoreMeta(0, 1, None)], ("a bound to X with a document", {"bind_0": 0, "obj_0": True, "meta_0_0": 0})),
                    ([step.Delete(0), step.DeleteMeta(0, None, all_docs=True)], ("a bound to X with a document", {"bind_0": 0, "obj_0": True, "meta_0_0": 0}))]
        out = []
        for calls, (iname, init) in pairs()[:(4 if tier == "thorough" else 2)]:
            out.append(("%s || from: %s || one I/O error" % (" || ".join(c.label for c in calls), iname), init, calls))
        return out
    return fn


def fold(run, results, prefix):
    for recs, st, nmenu in results:
        run.add_stats(st)
        for r in recs:
            if r["kind"] != "fault":
                run.reach["fault-free:" + r["res"]] += 1
                run.case(None)
                continue
            label = "%s fault at %s of %s" % ("persistent" if r["sticky"] else "one-off", r["site"][0], r["site"][1])
            run.reach[label] += 1
            run.reach["faulted call -> " + ("success" if r["res"] == "ok" else "error")] += 1
            for o in r.get("observations", []):
                run.reach["observation: " + o] += 1
            run.case((r["roles"], r["site"], r["sticky"], r["res"] == "ok"),
                     dict(call=r["call"], fault=label, errno=r["err"], outcome=r["res"]))
            mine = [b for b in r["bad"] if b[0].startswith(prefix)]
            run.obligations += r["nob"] + 1
            run.discharged += r["nob"] + 1 - min(len(mine), r["nob"] + 1)
            if mine:
                cl = sorted(set(b[0] for b in mine))
                sig = "%s :: %s :: %s :: outcome=%s :: pre-state: %s" % (
                    r["roles"], label, "+".join(cl), "success" if r["res"] == "ok" else "error", r["relation"])
                run.fail(sig, dict(call=r["call"], fault=label, errno=r["err"], operation_index=r["at"],
                                   outcome=r["res"], exception=r["exc"], failing=r["bad"], pre_state=r["vals"]),
                         dict(harness="fault", vals=r["vals"], clauses=[prefix], expect_hang=r.get("expect_hang", False)))


def main(tier, replay_payload=None):
    w_args = c13_universe(tier)
    if replay_payload is not None:
        if replay_payload.get("family") == "faulted":
            from engine import conc
            keep = [0, 2, 3] if tier == "thorough" else [0]
            return conc.replay_schedule(FAULTED_ARGS, lambda w: [sc for n_, sc in enumerate(faulted_for("thorough")(w)) if n_ in keep],
                                        replay_payload["k"], replay_payload["log"], replay_payload["bound"],
                                        replay_payload["clauses"][0], fault_at=replay_payload.get("fault_at"))
        return fault.replay_fault(w_args, menu_fn, replay_payload["vals"], replay_payload["clauses"])
    run = report.Run("C13", tier, technique="pathsym with symbolic fault point, stickiness and errno over the file-system "
                     "model (one fault per call); obligations by z3 validity; passthrough replay with a real OSError")
    def replayer(p):
        if p.get("family") == "faulted":
            from engine import conc
            keep = [0, 2, 3] if tier == "thorough" else [0]
            return conc.replay_schedule(FAULTED_ARGS, lambda w: [sc for n_, sc in enumerate(faulted_for("thorough")(w)) if n_ in keep],
                                        p["k"], p["log"], p["bound"], p["clauses"][0], fault_at=p.get("fault_at"))
        return fault.replay_fault(w_args, menu_fn, p["vals"], p["clauses"])
    run.replayer = replayer
    nerr = 3 if tier == "thorough" else 1
    res = fault.explore_faults(w_args, menu_fn, nerr)
    from engine import battery
    battery.validate(run)
    fold(run, res, "C13:")
    # one I/O error while two calls contend for one object: a call that reports success has achieved its effect (its
    # pid is retrievable with the right bytes) whatever the failing call cleaned up
    from engine import conc
    from props.C07 import fold as sched_fold
    # (not the delete_object || store_object pair: without any fault it already is known finding D6 of C07)
    keep = [0, 2, 3] if tier == "thorough" else [0]
    outs = conc.explore_scenarios(FAULTED_ARGS, lambda w: [sc for n_, sc in enumerate(faulted_for("thorough")(w)) if n_ in keep],
                                  1, with_fault=True)
    before = set(run.failures)
    sched_fold(run, outs, "C13:", 1)
    for sig in set(run.failures) - before:
        run.failures[sig]["payload"]["family"] = "faulted"
    run.functions = loader.function_lines(loader.load(), API_FUNCS)
    run.bounds = dict(pids=w_args["pids"], contents=[len(c) for c in w_args["contents"]], formats=w_args["formats"],
                      calls=res[0][2], faults="one per call: once, or persistent for that destination until the call "
                      "returns; errno " + ("EIO/ENOSPC/EACCES" if nerr == 3 else "EIO (thorough: EIO/ENOSPC/EACCES)"),
                      sites="create, open for read/write/append/update, write-flush, truncate, rename, remove, mkdir, "
                            "chmod, flock; the stdlib copy+unlink fallback of shutil.move is modelled",
                      state="arbitrary Inv state incl. directory existence")
    run.explanation = ("fault_at, sticky and errno are z3 variables decided at every operation of the environment model. "
                       "For each feasible (state, call, fault site, mode): if the call reports success z3 proves post = "
                       "model(pre, call) (whole effect achieved); if it raises: store_object/tag_object leave "
                       "bind[pid] unchanged and the same call succeeds at once when the pid was unbound; "
                       "store_metadata leaves the previous version; every other pid's reference, listing, metadata and "
                       "object are untouched. No clause demands absence of temporary files after an I/O error.")
    run.outside = ["several independent faults in one call", "faults in stat-class probes"]
    run.need("fault at a rename reached", any("fault at rename" in k for k in run.reach))
    run.need("a faulted call reported an error", run.reach["faulted call -> error"] > 0)
    run.need("a faulted call still succeeded (effect achieved)", run.reach["faulted call -> success"] > 0)
    return run.finish()
