"""C03 - a pid names at most one object; the binding is immutable until deleted."""
from props.common import *   # noqa

MINE = {"bound-pid-rebound", "other-pid-references-changed", "result-class", "store-state:object-bytes-changed",
        "model:bind", "store-state:pid-ref-garbled", "bookkeeping-not-exact", "store-state:unterminated-line",
        "store-state:dup-line", "store-state:foreign-line"}


def menu_fn(w):
    return object_menu(w, with_invalid=True, with_reads=False)


def main(tier, replay_payload=None):
    w_args = universe(tier, formats=False)
    long_args = dict(w_args, fake_cid="long")
    # identifiers that contain the metacharacters of string templates (URL-encoded DOIs do)
    pct_args = dict(w_args, pids=["doi%3A10.5063%2FF1", "100%", "a%sb{0}"])
    parts = {"main": (w_args, menu_fn), "long-cid": (long_args, menu_fn), "percent": (pct_args, menu_fn)}
    if replay_payload is not None:
        return make_multi_replayer(parts)(replay_payload)
    run = report.Run("C03", tier, technique="pathsym inductive step; z3 validity of binding immutability and frame")
    run.replayer = make_multi_replayer(parts)
    res = step.explore_steps(w_args, menu_fn)
    collect(run, res, MINE, w_args, menu_fn)
    # the never-stored cid of the universe once more, now longer than any digest (200 characters)
    collect(run, step.explore_steps(long_args, menu_fn), MINE, long_args, menu_fn, part="long-cid")
    collect(run, step.explore_steps(pct_args, menu_fn), MINE, pct_args, menu_fn, part="percent")
    # the same identifier in two stores of one process (different algorithms): in another process the binding made in
    # the second store is found again and still refuses a second object
    two_stores(run, "C03", ["bound-pid-accepted-again", "bound-pid-refused-with-another-error", "call-failed"])
    run.functions = loader.function_lines(loader.load(), API_FUNCS)
    run.bounds = dict(pids=w_args["pids"], contents=[len(c) for c in w_args["contents"]],
                      cids="digests of the contents + one never-stored cid", calls=res[0][2],
                      state="arbitrary Inv state: every combination of pid bound/unbound, same/different cid, "
                            "cid with/without list, object present/absent, shared/sole")
    run.explanation = ("For every Inv state and every store_object/tag_object/delete_object/delete_if_invalid_object "
                       "call of the universe the real code is executed on the symbolic store; z3 proves: pid bound => "
                       "documented already-exists class and bind'[pid]=bind[pid]; every other pid's reference and list "
                       "membership unchanged; pid unbound => success and bound to the requested cid; re-binding only "
                       "via the delete transition (reference model). Inductive, so all histories inside the universe.")
    run.outside = ["identifiers outside the universe"]
    run.need("rejection of a bound pid reached", run.reach["exists"] > 0)
    run.need("successful binding reached", run.reach["ok"] > 0)
    return run.finish()
