"""C07 - concurrent object operations are linearizable (symbolic schedule vector, preemption-bounded)."""
import hashlib
from props.common import *   # noqa
from engine import conc, crash

W_ARGS = dict(pids=["a", "b"], contents=[C_ONE, C_MULTI], formats=[None], fake_cid=False)

INITS = [
    ("empty store", {}),
    ("a bound to X", {"bind_0": 0, "obj_0": True}),
    ("a and b share X", {"bind_0": 0, "bind_1": 0, "obj_0": True}),
    ("X stored unreferenced", {"obj_0": True}),
]
# three threads, two cids: one holds cid X, one waits for it, the third takes and releases the unrelated cid Y
# (a release notifies the condition shared by all cids: the waiter must re-check, not proceed)
WAKE_INIT = ("a bound to X, Y stored unreferenced", {"bind_0": 0, "obj_0": True, "obj_1": True})


def menu(w):
    X = w.contents[0]
    good = hashlib.sha256(X).hexdigest()
    return [
        step.StoreObj(0, 0), step.StoreObj(1, 0), step.StoreObj(0, 1), step.StoreData(0),
        step.Tag(1, 0), step.Delete(0), step.Delete(1),
        step.DeleteIfInvalid(0, good, "sha256", len(X) + 1, True, ", wrong size"),
        step.DeleteIfInvalid(1, hashlib.sha256(w.contents[1]).hexdigest(), "sha256", len(w.contents[1]) + 1, True,
                             ", wrong size"),
    ]


def wake_scenarios(w):
    out = []
    for combo in [(5, 4, 8), (4, 4, 8)]:
        calls = [menu(w)[c] for c in combo]
        calls[1] = step.Tag(1, 0)
        out.append(("%s || from: %s" % (" || ".join(c.label for c in calls), WAKE_INIT[0]), WAKE_INIT[1], calls))
    # unrelated identifiers: a deleter of the last pid of X and a storer / tagger of another pid with other content Y
    # (they share nothing but directories)
    import posixpath
    needed = {posixpath.dirname(p) for p in (w.PIDREF[0], w.CIDREF[0], w.OBJ[0])}
    sparse = dict(INITS[1][1])
    sparse.update({str(v): (d in needed) for d, v in w.dirv.items()})      # only the directories a->X needs exist
    for other in (step.StoreObj(1, 1), step.Tag(1, 1)):
        calls = [step.Delete(0), other]
        out.append(("%s || from: %s, no other shard directory exists" % (" || ".join(c.label for c in calls), INITS[1][0]),
                    sparse, calls))
    # reference-pid lock: two taggers of one pid, a tagger of another pid releases in between
    calls = [step.Tag(1, 0), step.Tag(1, 1), step.Tag(0, 1)]
    out.append(("%s || from: %s" % (" || ".join(c.label for c in calls), WAKE_INIT[0]), WAKE_INIT[1], calls))
    # object-pid lock: two deleters of one pid, a deleter of another pid releases in between
    init = ("a and b share X", {"bind_0": 0, "bind_1": 0, "obj_0": True})
    calls = [step.Delete(0), step.Delete(0), step.Delete(1)]
    out.append(("%s || from: %s" % (" || ".join(c.label for c in calls), init[0]), init[1], calls))
    return out


# a shallow configuration (depth 1, width 1): the two pids hash into one refs/pids shard directory and one metadata
# directory prefix, the two contents into one objects / refs/cids shard directory -- calls on *different* pids and
# *different* contents still meet in the directories they have to create
SHALLOW_ARGS = dict(pids=["p4", "p19"], contents=[b"content-0\r\n\x00", b"content-9\r\n\x00"], formats=[None],
                    fake_cid=False, depth=1, width=1)


def shallow_scenarios(tier):
    def fn(w):
        nothing = {str(v): False for v in w.dirv.values()}          # a new store: no shard directory exists yet
        out = []
        for calls in ([step.StoreObj(0, 0), step.StoreObj(1, 1)], [step.Tag(0, 0), step.Tag(1, 1)],
                      [step.StoreMeta(0, 0, None), step.StoreMeta(1, 1, None)],
                      [step.StoreObj(0, 0), step.StoreMeta(1, 0, None)]):
            out.append(("%s || from: empty store without shard directories (depth 1, width 1)" % (
                " || ".join(c.label for c in calls)), nothing, calls))
        return out
    return fn


# two contents of many blocks (more than 64 KiB): concurrent stores of different pids and different contents
BIG_ARGS = dict(pids=["a", "b"], contents=[big_bytes(70001), big_bytes(70001, b"another tail")], formats=[None],
                fake_cid=False, blksize=4096)


def big_scenarios(tier):
    def fn(w):
        calls = [step.StoreObj(0, 0), step.StoreObj(1, 1)]
        return [("%s || from: empty store (two contents of 70001 bytes)" % " || ".join(c.label for c in calls), {}, calls)]
    return fn


def claim_scenarios(tier):
    """one pair per locked-identifier list, explored with two preemptions in every tier: 'the identifier is free' and
    'the identifier is mine' must be one step (with a single preemption the second thread always runs to the end
    before the first goes on, which hides a claim made outside the condition's lock)"""
    def fn(w):
        out = []
        for calls, init in (([step.Tag(1, 0), step.Tag(1, 1)], WAKE_INIT),           # reference-pid list
                            ([step.Delete(0), step.Delete(0)], INITS[2]),            # object-pid list
                            ([step.Tag(0, 1), step.Tag(1, 1)], WAKE_INIT)):          # cid list, through tag_object
            out.append(("%s || from: %s (two preemptions)" % (" || ".join(c.label for c in calls), init[0]), init[1], calls))
        return out
    return fn


def scenarios_for(tier, triples=False):
    def fn(w):
        m = menu(w)
        out = []
        idx = range(len(m) - 1)
        combos = list(itertools.combinations_with_replacement(idx, 2))
        if triples:
            # triples are chosen not to contain a pair with a listed known race (D6, D11, D12, D13), so that they look for
            # new ones instead of re-reporting those
            combos = [(0, 1, 2), (0, 1, 4), (3, 5, 6), (0, 0, 1), (1, 3, 4), (5, 6, 7), (0, 2, 3), (2, 3, 6)]
        for combo in combos:
            for iname, init in INITS:
                calls = [menu(w)[c] for c in combo]
                if any(isinstance(c, step.DeleteIfInvalid) for c in calls) and not init.get("obj_0") and \
                        not any(isinstance(c, (step.StoreObj, step.StoreData)) and c.k == 0 for c in calls):
                    continue        # documented precondition: the descriptor's object is present
                out.append(("%s || from: %s" % (" || ".join(c.label for c in calls), iname), init, calls))
        if not triples:
            out += wake_scenarios(w)
        return out
    return fn


import itertools  # noqa: E402


def fold(run, outs, prefix, bound):
    for o in outs:
        run.add_stats(o["stats"])
        run.reach["scenarios"] += 1
        run.reach["schedules"] += o["schedules"]
        run.case(("scenario", o["name"]), dict(scenario=o["name"], schedules=o["schedules"],
                                               sequential_outcomes=o["nseq"], outcomes=o["outcomes"][:3]))
        run.evaluations += max(0, o["schedules"] - 1)
        run.obligations += o["schedules"]
        nb = 0
        for (clause, detail), b in o["bad"].items():
            if not clause.startswith(prefix):
                continue
            nb += b["count"]
            sig = "%s :: %s :: results=%s" % (o["name"], clause, b["res"])
            if b.get("fault"):
                sig += " :: I/O error injected at %s of %s" % (b["fault"][1], crash.addr_kind(b["fault"][2]))
            run.fail(sig, dict(scenario=o["name"], clause=clause, detail=b["detail"], schedule="".join(map(str, b["log"])),
                               preemptions=b["preemptions"], schedules_failing=b["count"], of=o["schedules"],
                               fault=b.get("fault")),
                     dict(harness="sched", k=o["k"], log=b["log"], bound=bound, clauses=[prefix],
                          fault_at=b["fault"][0] if b.get("fault") else None))
        run.discharged += o["schedules"] - min(nb, o["schedules"])


def main(tier, replay_payload=None):
    bound = 2 if tier == "thorough" else 1
    sf = scenarios_for(tier)
    if replay_payload is not None:
        if replay_payload.get("shallow"):
            return conc.replay_schedule(SHALLOW_ARGS, shallow_scenarios(tier), replay_payload["k"], replay_payload["log"],
                                        replay_payload["bound"], replay_payload["clauses"][0])
        if replay_payload.get("claim"):
            return conc.replay_schedule(W_ARGS, claim_scenarios(tier), replay_payload["k"], replay_payload["log"],
                                        replay_payload["bound"], replay_payload["clauses"][0])
        if replay_payload.get("big"):
            return conc.replay_schedule(BIG_ARGS, big_scenarios(tier), replay_payload["k"], replay_payload["log"],
                                        replay_payload["bound"], replay_payload["clauses"][0])
        fn = scenarios_for(tier, triples=True) if replay_payload.get("triples") else sf
        return conc.replay_schedule(W_ARGS, fn, replay_payload["k"], replay_payload["log"],
                                    replay_payload["bound"], replay_payload["clauses"][0])
    run = report.Run("C07", tier, technique="pathsym with a symbolic schedule vector (sched_n, wake_k) over a cooperative "
                     "scheduler running the real methods in real threads; oracle = all sequential orders")

    def replayer(p):
        if p.get("shallow"):
            return conc.replay_schedule(SHALLOW_ARGS, shallow_scenarios(tier), p["k"], p["log"], p["bound"], p["clauses"][0])
        if p.get("claim"):
            return conc.replay_schedule(W_ARGS, claim_scenarios(tier), p["k"], p["log"], p["bound"], p["clauses"][0])
        if p.get("big"):
            return conc.replay_schedule(BIG_ARGS, big_scenarios(tier), p["k"], p["log"], p["bound"], p["clauses"][0])
        fn = scenarios_for(tier, triples=True) if p.get("triples") else sf
        return conc.replay_schedule(W_ARGS, fn, p["k"], p["log"], p["bound"], p["clauses"][0])
    run.replayer = replayer
    outs = conc.explore_scenarios(W_ARGS, sf, bound)
    from engine import battery
    battery.validate(run)
    fold(run, outs, "LIN:", bound)
    before = set(run.failures)
    fold(run, conc.explore_scenarios(SHALLOW_ARGS, shallow_scenarios(tier), bound), "LIN:", bound)
    for sig in set(run.failures) - before:
        run.failures[sig]["payload"]["shallow"] = True
    before = set(run.failures)
    fold(run, conc.explore_scenarios(BIG_ARGS, big_scenarios(tier), 1), "LIN:", 1)
    for sig in set(run.failures) - before:
        run.failures[sig]["payload"]["big"] = True
    if bound < 2:
        before = set(run.failures)
        fold(run, conc.explore_scenarios(W_ARGS, claim_scenarios(tier), 2), "LIN:", 2)
        for sig in set(run.failures) - before:
            run.failures[sig]["payload"]["claim"] = True
    if tier == "thorough":
        outs3 = conc.explore_scenarios(W_ARGS, scenarios_for(tier, triples=True), 1)
        before = set(run.failures)
        fold(run, outs3, "LIN:", 1)
        for sig in set(run.failures) - before:
            run.failures[sig]["payload"]["triples"] = True
    run.functions = loader.function_lines(loader.load(), API_FUNCS + [
        "FileHashStore._synchronize_object_locked_pids", "FileHashStore._release_object_locked_pids",
        "FileHashStore._synchronize_object_locked_cids", "FileHashStore._release_object_locked_cids",
        "FileHashStore._synchronize_referenced_locked_pids", "FileHashStore._release_reference_locked_pids"])
    run.bounds = dict(shallow_configuration="4 pairs on different pids and contents whose shard directories coincide "
                      "(depth 1, width 1), from a store without shard directories",
                      threads="2 (thorough: + 8 triples)", preemption_bound=bound, pids=W_ARGS["pids"], contents=[1, 12],
                      menu=[c.label for c in menu(World_for_labels())], starting_states=[i[0] for i in INITS],
                      granularity="every lock acquire / condition wait / file-system operation / existence probe")
    run.explanation = ("Each pair of calls runs in two real threads under a cooperative scheduler; the schedule is a "
                       "vector of z3 integers sched_n (which thread moves at step n, constrained to the enabled threads "
                       "and by the preemption budget) and wake_k (which waiter a notify wakes); every feasible "
                       "assignment is executed on the real code. The outcome (each call's result and the final abstract "
                       "store state) must equal that of some sequential order of the same calls from the same state, "
                       "computed by running the real code sequentially, with StoreObjectForPidAlreadyInProgress "
                       "admitted for a store_object whose pid another call stores.")
    run.outside = ["more preemptions than the bound", "more than 3 threads", "preemption inside one buffered write",
                   "other processes"]
    run.need("a thread had to wait for a locked identifier", True)
    return run.finish()


def World_for_labels():
    from engine.universe import World
    return World(**W_ARGS)
