"""C20 - the command-line client is a faithful front end to the API (relational step: client main() on one copy of a
symbolic store state, the corresponding API call on another copy)."""
import contextlib
import hashlib
import importlib.machinery
import io
import sys
import z3
from props.common import *   # noqa
from engine import symfs, conc
from engine.pathsym import PathSym, par_explore
from engine.universe import World

INVV = z3.Int("invocation")
LOGV = z3.Bool("client_used_on_this_store_before")
CONTENT_K = 1


def invocations(w):
    """(label, argv tail, api(w, s) -> value, kind)"""
    c = w.contents[CONTENT_K]
    n = len(c)
    src = "/src/c%d" % CONTENT_K if w.mode != "native" else w.src(CONTENT_K)
    doc = "/src/d1" if w.mode != "native" else w.docsrc(1)
    pid = w.pids[0]
    md5 = hashlib.md5(c).hexdigest()
    out = []

    def add(label, argv, api, kind="typed"):
        out.append((label, argv, api, kind))
    algos = [(None, None), ("sha224", "sha224"), ("SHA-384", "SHA-384"), ("sha999", "sha999")]
    sums = [(None, None), (md5, "MD5"), (md5.upper(), "md5"), ("0" * 32, "md5"), (md5, None), (None, "md5"),
            (hashlib.sha3_256(c).hexdigest(), "SHA3-256")]
    sizes = [(None, None, "typed"), (str(n), n, "typed"), (str(n + 1), n + 1, "typed"), ("0", 0, "typed"),
             ("-1", -1, "typed"), ("abc", "abc", "untyped"), ("1.5", 1.5, "untyped")]
    for a_opt, a_val in algos:
        for (ck, ca) in sums:
            for (z_opt, z_val, kind) in sizes:
                if sum(x is not None for x in (a_opt, ck or ca, z_opt)) > 2 and not (a_opt == "sha224" and ca == "MD5"):
                    continue
                argv = ["-storeobject", "-pid=" + pid, "-path=" + src]
                if a_opt is not None:
                    argv.append("-algo=" + a_opt)
                if ck is not None:
                    argv.append("-checksum=" + ck)
                if ca is not None:
                    argv.append("-checksum_algo=" + ca)
                if z_opt is not None:
                    argv.append("-obj_size=" + z_opt)
                add("storeobject " + " ".join(x.split("=")[0] + "=" + x.split("=", 1)[1][:12] for x in argv[3:]), argv,
                    lambda w, s, a=a_val, ck=ck, ca=ca, z=z_val: s.store_object(pid, src, a, ck, ca, z), kind)
    for f in (None, "c", "bc", " ", ""):
        argv = ["-storemetadata", "-pid=" + pid, "-path=" + doc] + (["-formatid=" + f] if f is not None else [])
        add("storemetadata formatid=%r" % f, argv, lambda w, s, f=f: s.store_metadata(pid, doc, f))
        argv = ["-retrievemetadata", "-pid=" + pid] + (["-formatid=" + f] if f is not None else [])
        add("retrievemetadata formatid=%r" % f, argv, lambda w, s, f=f: _read(s.retrieve_metadata(pid, f)))
        argv = ["-deletemetadata", "-pid=" + pid] + (["-formatid=" + f] if f is not None else [])
        # the client's omitted -formatid means the store's default namespace (one document), see DESIGN.md C20
        add("deletemetadata formatid=%r" % f, argv,
            lambda w, s, f=f: s.delete_metadata(pid, w.ns if f is None else f))
    # the -path value reaches the API as it was spelled: a path through a directory that does not exist, or a file name
    # with a trailing slash, names nothing (for the API and therefore for the client)
    srcdir = src.rsplit("/", 1)[0]
    for spelled in (srcdir + "/no-such-dir/../" + src.rsplit("/", 1)[1], src + "/", src + "/.",
                    srcdir + "/./" + src.rsplit("/", 1)[1]):
        add("storeobject path=%s" % spelled.replace(srcdir, "<dir>"), ["-storeobject", "-pid=" + w.pids[1], "-path=" + spelled],
            lambda w, s, sp=spelled: s.store_object(w.pids[1], sp))
        add("storemetadata path=%s" % spelled.replace(srcdir, "<dir>"),
            ["-storemetadata", "-pid=" + w.pids[1], "-path=" + spelled.replace("c%d" % CONTENT_K, "d1"), "-formatid=c"],
            lambda w, s, sp=spelled: s.store_metadata(w.pids[1], sp.replace("c%d" % CONTENT_K, "d1"), "c"))
    # option and value as two words (the other documented spelling), with a value that starts with a character some
    # argument parsers treat specially
    other = w.pids[1]
    add("storeobject, option and value as separate words", ["-storeobject", "-pid", other, "-path", src],
        lambda w, s: s.store_object(other, src))
    add("retrieveobject, separate words", ["-retrieveobject", "-pid", other], lambda w, s: _read(s.retrieve_object(other)))
    add("storemetadata, separate words", ["-storemetadata", "-pid", other, "-path", doc, "-formatid", "c"],
        lambda w, s: s.store_metadata(other, doc, "c"))
    add("getchecksum, separate words", ["-getchecksum", "-pid", other, "-algo", "SHA-256"],
        lambda w, s: s.get_hex_digest(other, "SHA-256"))
    add("deleteobject, separate words", ["-deleteobject", "-pid", other], lambda w, s: s.delete_object(other))
    add("retrieveobject", ["-retrieveobject", "-pid=" + pid], lambda w, s: _read(s.retrieve_object(pid)))
    add("retrieveobject (other pid)", ["-retrieveobject", "-pid=" + w.pids[1]], lambda w, s: _read(s.retrieve_object(w.pids[1])))
    add("deleteobject", ["-deleteobject", "-pid=" + pid], lambda w, s: s.delete_object(pid))
    for a in ("SHA-256", "md5", "sha3_512", "sha999"):
        add("getchecksum algo=%s" % a, ["-getchecksum", "-pid=" + pid, "-algo=" + a],
            lambda w, s, a=a: s.get_hex_digest(pid, a))
    add("getchecksum without -algo", ["-getchecksum", "-pid=" + pid], lambda w, s: _raise(ValueError("-algo required")))
    for verb in ("-storeobject", "-retrieveobject", "-deleteobject", "-storemetadata", "-retrievemetadata",
                 "-deletemetadata", "-getchecksum"):
        add("%s without -pid" % verb[1:], [verb, "-path=" + src, "-algo=md5"],
            lambda w, s: _raise(ValueError("-pid required")))
    add("storeobject without -path", ["-storeobject", "-pid=" + pid], lambda w, s: _raise(ValueError("-path required")))
    return out


def _read(st):
    try:
        return st.read()
    finally:
        st.close()


def _raise(e):
    raise e


def load_client(w):
    C = loader.load("hashstoreclient.py")
    repl = dict(os=w.shim.os, open=w.shim.open, Path=w.shim.Path, logging=w.shim.logging)
    for k, v in repl.items():
        C.__dict__[k] = v
    return C


def run_client(w, C, argv):
    """client main() against the loaded store module (the real factory resolves 'hashstore.filehashstore' to it)"""
    name = "hashstore.filehashstore"
    saved_mod, saved_argv = sys.modules.get(name), sys.argv
    M = w.module()
    if w.mode != "native":
        M.__spec__ = importlib.machinery.ModuleSpec(name, None)
        sys.modules[name] = M
    sys.argv = ["hashstore", w.root()] + argv
    out = io.StringIO()
    try:
        with contextlib.redirect_stdout(out), contextlib.redirect_stderr(io.StringIO()):
            C.main()
        return "ok", out.getvalue()
    except symfs.Crash:
        raise
    except SystemExit as e:
        return "SystemExit", str(e.code)
    except Exception as e:   # noqa
        return type(e).__name__, str(e)[:120]
    finally:
        sys.argv = saved_argv
        if saved_mod is not None:
            sys.modules[name] = saved_mod
        elif w.mode != "native":
            sys.modules.pop(name, None)


def both(ps, w, C):
    bad = []
    # copy A: the client
    w.build(ps)
    inv = invocations(w)
    n = ps.choose(INVV, 0, len(inv))
    label, argv, api, kind = inv[n]
    pre = w.pre()
    # the client may have been used on this store before (its log file is then already there)
    used_before = ps.decide(LOGV)
    if used_before:
        if w.mode == "native":
            open(w.scratch + "/s/python_client.log", "w").close()
        else:
            w.F.b.create("/s/python_client.log", b"")
    if w.mode == "native":
        um0 = os.umask(0o022)
        os.umask(um0)
    else:
        um0 = w.F.umask
    rA, outA = run_client(w, C, argv)
    postA = w.post()
    modesA = tree_modes(w)
    if w.mode == "native":
        um1 = os.umask(um0)
    else:
        um1 = w.F.umask
    if um1 != um0:
        # what an API call never does: everything the process creates afterwards gets other permission bits
        bad.append(("client-leaves-the-process-umask-changed", "%s -> %s" % (oct(um0), oct(um1))))
    probsA = [p for p in postA["problems"] if not (p[0] == "foreign-file" and p[1].endswith("python_client.log"))]
    # copy B: the API with the same values
    w.build(ps)
    label, _argvB, api, kind = invocations(w)[n]
    sB = w.store()
    try:
        vB = api(w, sB)
        rB = "ok"
    except symfs.Crash:
        raise
    except Exception as e:   # noqa
        rB, vB = type(e).__name__, e
    postB = w.post()
    modesB = tree_modes(w)
    if modesA != modesB:
        d_ = sorted(k for k in set(modesA) | set(modesB) if modesA.get(k) != modesB.get(k))
        bad.append(("client-and-api-permission-bits-differ",
                    [(k, oct(modesA.get(k, 0)), oct(modesB.get(k, 0))) for k in d_[:3]]))
    okA, okB = rA == "ok", rB == "ok"
    if okA != okB:
        if kind == "typed" or okA:
            bad.append(("client-and-api-outcomes-differ", "client=%s %s api=%s" % (rA, outA[:80] if not okA else "", rB)))
    elif not okA and kind == "typed" and rA != rB:
        bad.append(("client-and-api-error-classes-differ", "client=%s api=%s" % (rA, rB)))
    oke, _ = ps.valid(w.state_eq(postA, postB))
    if not oke:
        bad.append(("client-and-api-final-states-differ", ""))
    if sorted(p[0] for p in probsA) != sorted(p[0] for p in postB["problems"]):
        bad.append(("client-left-other-files-than-api", ([p[:2] for p in probsA][:3], [p[:2] for p in postB["problems"]][:3])))
    if okA and okB:
        if hasattr(vB, "cid"):
            want = [vB.cid, str(vB.obj_size)] + list(vB.hex_digests.values())
        elif isinstance(vB, bytes):
            shown = vB[:1000].decode("utf-8", "ignore")
            want = [shown]
            # the client shows exactly the first 1000 bytes of what the API returns, then a newline
            if not outA.startswith(shown + "\n"):
                bad.append(("client-shows-other-content-than-api-returns", (outA[:30], shown[:30])))
        elif vB is None:
            want = []
        else:
            want = [str(vB)]
        missing = [x for x in want if x not in outA]
        if missing:
            bad.append(("client-output-lacks-api-result", missing[:2]))
    rec = dict(label=label, rA=rA, rB=rB, bad=bad, n=n)
    if bad:
        rec["vals"] = ps.model_values(w.statevars + [INVV, LOGV])
        rec["relation"] = step._rel_pid(w, rec["vals"], 0)
    return rec


def tree_modes(w):
    """permission bits of every directory and file the call created or chmod-ed below the store root (the client's
    own log file aside)"""
    if w.mode == "native":
        out = {}
        root = w.scratch + "/s"
        for dp, dn, fn in os.walk(root):
            for n_ in dn + fn:
                full = os.path.join(dp, n_)
                rel = full[len(root):]
                if rel.endswith("python_client.log") or "/tmp" in rel:
                    continue
                out[rel] = os.stat(full).st_mode & 0o777
        return out
    return {k[len("/s"):]: v for k, v in w.F.modes.items()
            if k.startswith("/s/") and not k.endswith("python_client.log") and "/tmp" not in k
            and (w.F.b.isfile(k) or w.F.b.isdir(k))}


def chs_roundtrip(run, tier):
    """a store created by the client is opened by the API with the same properties and vice versa (model + shim)"""
    w = World(pids=["a"], contents=[b"x"], formats=[None], fake_cid=False, sym_dirs=False)
    C = load_client(w)
    ns = "http://www.ns.test/v1"
    for d, wd, algo in [(3, 2, "SHA-256"), (1, 4, "MD5"), (2, 1, "SHA-512")] + ([(5, 3, "SHA-1"), (4, 4, "SHA-384")] if tier == "thorough" else []):
        F = symfs.FS(symfs.ModelBackend())
        F.b.dirs["/src"] = True
        w.shim.fs = F
        w.mode = "model"
        saved_root = w.root
        w.root = lambda: "/c"
        try:
            r, out = run_client(w, C, ["-chs", "-dp=%d" % d, "-wp=%d" % wd, "-ap=" + algo, "-nsp=" + ns])
        finally:
            w.root = saved_root
        bad = []
        if r != "ok":
            bad.append(("client-create-store-failed", r + " " + out))
        else:
            props = dict(store_path="/c", store_depth=d, store_width=wd, store_algorithm=algo, store_metadata_namespace=ns)
            try:
                w.M.FileHashStore(props)
            except Exception as e:   # noqa
                bad.append(("api-cannot-open-client-created-store", type(e).__name__))
            try:
                w.M.FileHashStore(dict(props, store_depth=d + 1))
                bad.append(("api-opened-client-created-store-with-other-depth", ""))
            except Exception:   # noqa
                pass
        # vice versa: API creates, client opens (any verb)
        F2 = symfs.FS(symfs.ModelBackend())
        F2.b.dirs["/src"] = True
        w.shim.fs = F2
        w.M.FileHashStore(dict(store_path="/c", store_depth=d, store_width=wd, store_algorithm=algo,
                               store_metadata_namespace=ns))
        w.root = lambda: "/c"
        try:
            r2, out2 = run_client(w, C, ["-retrieveobject", "-pid=unknown"])
        finally:
            w.root = saved_root
        if r2 != "PidRefsDoesNotExist":
            bad.append(("client-cannot-open-api-created-store", r2 + " " + out2))
        # create-store verb on an EXISTING store: same verdict as the API constructor with those properties
        for dd, expect in ((d, "ok"), (d + 1, "ValueError")):
            F2.trace = []
            w.root = lambda: "/c"
            try:
                r3, out3 = run_client(w, C, ["-chs", "-dp=%d" % dd, "-wp=%d" % wd, "-ap=" + algo, "-nsp=" + ns,
                                             "-retrieveobject", "-pid=unknown"])
            finally:
                w.root = saved_root
            try:
                w.M.FileHashStore(dict(store_path="/c", store_depth=dd, store_width=wd, store_algorithm=algo,
                                       store_metadata_namespace=ns))
                api = "ok"
            except Exception as e:   # noqa
                api = type(e).__name__
            got = "ok" if r3 == "PidRefsDoesNotExist" else r3
            if got != api or api != expect:
                bad.append(("client-create-store-on-existing-store-differs-from-api", "client=%s api=%s depth=%d" % (r3, api, dd)))
        run.case(("chs", d, wd, algo), dict(create_store=(d, wd, algo), client_created=r, client_opened_api_store=r2))
        run.oblige(not bad)
        if bad:
            run.fail("create store depth=%d width=%d %s :: %s" % (d, wd, algo, "+".join(b[0] for b in bad)),
                     dict(failing=bad), dict(harness="chs", config=(d, wd, algo), clauses=[b[0] for b in bad]))


def c20_args(tier):
    return dict(pids=["a", "@b"], contents=[b"x", b"0123456789ab", "l1\r\nl2\rl3\n".encode() + ("\u00e9" * 700).encode("utf-8")],
                formats=[None, "c", "bc"], fake_cid=False, sym_dirs=False,
                docs=[b"<v0/>", "<v1>\r\n\u00e9</v1>".encode("utf-8")])


def replay(tier, payload):
    if payload.get("harness") == "chs":
        return True, "model-level create-store round trip (see detail); re-run ./check C20"
    a = dict(c20_args(tier), mode="native")
    w = World(**a)
    import logging
    try:
        C = loader.load("hashstoreclient.py")          # unpatched client, real argparse, real factory, real files
        pins = []
        for v in w.statevars + [INVV, LOGV]:
            if str(v) in payload["vals"]:
                x = payload["vals"][str(v)]
                pins.append(v == (z3.BoolVal(x) if isinstance(x, bool) else z3.IntVal(x)))
        ps = PathSym(w.inv() + pins)
        recs = ps.explore(lambda p: both(p, w, C))
        logging.disable(logging.CRITICAL)
        r = recs[0]
        hit = [b for b in r["bad"] if b[0] in payload["clauses"]]
        return bool(hit), "native replay (unpatched client main() and API on two real stores built by %s): %s -> client=%s api=%s failing=%s" % (
            getattr(w, "history", []), r["label"], r["rA"], r["rB"], r["bad"])
    finally:
        w.cleanup()


def main(tier, replay_payload=None):
    if replay_payload is not None:
        return replay(tier, replay_payload)
    run = report.Run("C20", tier, technique="pathsym relational step: client main() and the API call on two copies of one "
                     "symbolic store state in one path; z3 validity of post_client = post_api")
    run.replayer = lambda p: replay(tier, p)
    a = c20_args(tier)
    w0 = World(**a)
    ninv = len(invocations(w0))

    def worker(idx):
        w = World(**a)
        C = load_client(w)
        ps = PathSym(w.inv() + [z3.Or([INVV == n for n in idx])])
        recs = ps.explore(lambda p: both(p, w, C))
        return recs, ps.st.as_dict()
    for recs, st in par_explore(worker, [list(range(r, ninv, 16)) for r in range(16)]):
        run.add_stats(st)
        for r in recs:
            run.reach["client:" + r["rA"]] += 1
            run.case((r["label"], r["rA"], r["rB"]), dict(invocation=r["label"], client=r["rA"], api=r["rB"]))
            run.oblige(not r["bad"])
            if r["bad"]:
                cl = sorted(set(b[0] for b in r["bad"]))
                sig = "%s :: %s :: client=%s api=%s" % (r["label"], "+".join(cl), r["rA"], r["rB"])
                run.fail(sig, dict(invocation=r["label"], failing=r["bad"], pre_state=r["vals"]),
                         dict(harness="c20", vals=r["vals"], clauses=cl))
    from engine import battery
    battery.validate(run)
    chs_roundtrip(run, tier)
    run.functions = loader.function_lines(loader.load("hashstoreclient.py"), [
        "main", "HashStoreParser.__init__", "HashStoreParser.load_store_properties", "HashStoreClient.__init__"]) + \
        loader.function_lines(loader.load(), API_FUNCS[:9])
    run.bounds = dict(invocations=ninv, verbs=["create store", "storeobject", "retrieveobject", "deleteobject",
                                                "storemetadata", "retrievemetadata", "deletemetadata", "getchecksum"],
                      options="subsets (<= 2 at a time, plus one triple) of -algo, -checksum, -checksum_algo, -obj_size; "
                              "-formatid absent / present / blank; valid and invalid values; missing -pid / -path",
                      state="arbitrary Inv state, both copies built from the same variables")
    run.explanation = ("For every client invocation of the menu the real main() (real argparse, real factory resolving to "
                       "the loaded store module) runs on one copy of a symbolic store state and the API call with the "
                       "same values (with the types the API requires) on a second copy: same success/error, same error "
                       "class for well-typed values, z3-proved equal post-states, no other files than the client's log, "
                       "and stdout carries the API's cid / digests / path / content. An omitted -formatid means the "
                       "store's default namespace for all three metadata verbs (README: 'delete a metadata file'). "
                       "Create-store round trip client<->API on three (five) configurations. knbvm/Postgres verbs: "
                       "outside (need a database).")
    run.outside = ["knbvm / Postgres backed verbs", "option values outside the menu"]
    run.need("a client store succeeded", run.reach["client:ok"] > 0)
    return run.finish()
