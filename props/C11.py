"""C11 - metadata documents: faithful round trip, isolation and lifetime."""
from props.common import *   # noqa

MINE = {"model:meta", "returned-value", "round-trip:stored-document-not-retrievable",
        "round-trip:stored-document-follows-the-caller's-file", "result-class", "store-state:metadata-garbled", "store-state:tmp-residue",
        "store-state:foreign-file", "store-state:delete-marker-residue"}


def menu_fn(w):
    m = metadata_menu(w)
    # the other documented kinds of the metadata argument: Path, open binary file and in-memory stream (the two
    # streams positioned at a solver-chosen offset; the whole document is stored and the stream left as it was)
    for kind in ("Path", "stream", "bytesio"):
        for v in range(w.ND):
            for f in w.formats[:2]:
                n = len(w.docs[v])
                off = None if n <= 64 else [0, 1, 4096, 8192, n - 1, n]
                m.append(step.StoreMeta(0, v, f, kind=kind, offset=off if kind != "Path" else 0))
    for i in range(w.NP):
        m.append(step.Delete(i))
    # the same instance serves a read first: pairs whose concatenation pid+format coincides, and a plain repeat
    def fmt_ok(f):
        return f in w.formats
    if P_AB in w.pids and P_A in w.pids and fmt_ok("c") and fmt_ok("bc"):
        ia, iab = w.pids.index(P_A), w.pids.index(P_AB)
        for (i1, f1), (i2, f2) in (((iab, "c"), (ia, "bc")), ((ia, "bc"), (iab, "c"))):
            m.append(step.After(step.RetrieveMeta(i1, f1), step.RetrieveMeta(i2, f2)))
            m.append(step.After(step.RetrieveMeta(i1, f1), step.DeleteMeta(i2, f2)))
            for v in range(w.ND):
                m.append(step.After(step.RetrieveMeta(i1, f1), step.StoreMeta(i2, v, f2)))
    m.append(step.After(step.RetrieveMeta(0, None), step.RetrieveMeta(0, "ns" if fmt_ok("ns") else None)))
    m.append(step.After(step.RetrieveMeta(0, None), step.RetrieveMeta(1, None)))
    return m


# two documents of the same length (> two 8 KiB buffers) that differ only in their last bytes, next to a short one
BIG_ARGS = dict(pids=["a", "b"], contents=[C_ONE], formats=[None, "c"], fake_cid=False, sym_dirs=False, blksize=4096,
                docs=[big_bytes(20001, b"<rev>1</rev>"), big_bytes(20001, b"<rev>2</rev>"), D_ONE])


# the same calls under store algorithms whose digests have other lengths (document names are digests)
def algo_args(algo):
    return dict(pids=[P_A, "b"], contents=[C_ONE], formats=[None, "c", "d"], fake_cid=False, sym_dirs=False,
                algorithm=algo)


def algo_menu(w):
    return metadata_menu(w) + [step.Delete(i) for i in range(w.NP)]


def main(tier, replay_payload=None):
    w_args = universe(tier)
    if "" not in w_args["formats"]:
        w_args["formats"] = list(w_args["formats"]) + [""]      # the empty format is a format of its own
    if tier == "thorough":
        w_args["docs"] = [b"", D_ONE, D_MULTI]
    parts = dict(main=(w_args, menu_fn), big=(BIG_ARGS, menu_fn))
    other_algos = ["MD5", "SHA-1", "SHA-384", "SHA-512"] if tier == "thorough" else ["MD5", "SHA-512"]
    for a_ in ["MD5", "SHA-1", "SHA-384", "SHA-512"]:
        parts["algo-" + a_] = (algo_args(a_), algo_menu)
    if replay_payload is not None:
        return make_multi_replayer(parts)(replay_payload)
    run = report.Run("C11", tier, technique="pathsym inductive step on the metadata cells; z3 validity of meta' = model")
    run.replayer = make_multi_replayer(parts)
    res = step.explore_steps(w_args, menu_fn)
    collect(run, res, MINE, w_args, menu_fn)
    collect(run, step.explore_steps(BIG_ARGS, menu_fn), MINE, BIG_ARGS, menu_fn, part="big")
    for a_ in other_algos:
        collect(run, step.explore_steps(algo_args(a_), algo_menu), MINE, algo_args(a_), algo_menu, part="algo-" + a_)
    # two stores with different default namespaces (and algorithms) in one process, read back by another process
    two_stores(run, "C11", ["metadata", "first-store-metadata", "call-failed"])
    run.functions = loader.function_lines(loader.load(), API_FUNCS)
    run.bounds = dict(pids=w_args["pids"], formats=w_args["formats"], documents=[len(d) for d in w_args.get("docs", [b"12345", b"1234567890123"])],
                      large_documents="two 20001-byte documents equal up to their last 12 bytes (4096-byte blocks)",
                      calls=res[0][2], state="arbitrary Inv state: every (pid, format) cell absent / version 0 / version 1")
    run.explanation = ("For every Inv state and every store/retrieve/delete_metadata and delete_object call, z3 proves "
                       "meta' = model(meta, call): only the addressed cell (or row) changes, all other (pid, format) cells "
                       "are the untouched variables; retrieve returns the bytes of the stored version; delete of an absent "
                       "document is a no-op and retrieve of it a ValueError. ('ab','c') and ('a','bc') are in the universe.")
    run.outside = ["formats outside the alphabet", "hash-prefix collisions of different pids"]
    run.need("retrieve of an absent document reached", run.reach["ValueError"] > 0)
    return run.finish()
