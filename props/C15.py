"""C15 - on-disk layout follows the published HashStore layout for every configuration.
E1: _shard and the three path builders for symbolic depth/width/digest.
E2: configuration selectors (depth x width x algorithm) x a fixed script; the complete tree must equal the tree
    computed by an independent implementation of the README layout."""
import hashlib
import os
import shutil
import z3
import yaml
from typing import List
from props.common import *   # noqa
from engine import xh, symfs
from engine.pathsym import PathSym, par_explore
from engine.universe import D1ALGO, scratch_root

ALGOS = ["MD5", "SHA-1", "SHA-256", "SHA-384", "SHA-512"]
HEXLEN = {"MD5": 32, "SHA-1": 40, "SHA-256": 64, "SHA-384": 96, "SHA-512": 128}
NS = "https://ns.dataone.org/service/types/v2.0#SystemMetadata"
# metadata namespaces: the DataONE one and strings that are not plain YAML scalars (hashstore.yaml must give them back)
NSLIST = [NS, "2.0", "sysmeta #v2", "eml: 2.2.0", "yes", "*v2 & [x] {y}: 'q' \"r\""]
PIDS = ["a", "ab", "doi:10.18739/A2901ZH2M", "jtao.1700.1", "ü中\U0001F600"]
FORMATS = [None, "c", "http://ns/other#fmt"]
CONTENTS = [C_ONE, C_MULTI, b""]


# ---------------------------------------------------------------- independent implementation of the README layout
def r_shard(d, depth, width):
    out = []
    rest = d
    for _ in range(depth):
        out.append(rest[:width])
        rest = rest[width:]
    out.append(rest)
    return [t for t in out if t]


def r_H(text, algo):
    return hashlib.new(D1ALGO[algo], text.encode("utf-8")).hexdigest()


def expected_tree(depth, width, algo, ns, script):
    """script: list of ('obj', pid, content) / ('meta', pid, format, doc) -> {relative path: bytes}"""
    tree = {}
    lists = {}
    for op in script:
        if op[0] in ("obj", "objck"):
            _, pid, content = op
            cid = hashlib.new(D1ALGO[algo], content).hexdigest()
            tree["objects/" + "/".join(r_shard(cid, depth, width))] = content
            tree["refs/pids/" + "/".join(r_shard(r_H(pid, algo), depth, width))] = cid.encode()
            lists.setdefault(cid, []).append(pid)
        else:
            _, pid, fmt, doc = op
            f = ns if fmt is None else fmt
            tree["metadata/" + "/".join(r_shard(r_H(pid, algo), depth, width)) + "/" + r_H(pid + f, algo)] = doc
    for cid, pids in lists.items():
        tree["refs/cids/" + "/".join(r_shard(cid, depth, width))] = "".join(p + "\n" for p in pids).encode("utf-8")
    return tree


def script_for():
    return [("obj", PIDS[0], CONTENTS[0]), ("obj", PIDS[1], CONTENTS[0]), ("obj", PIDS[2], CONTENTS[1]),
            ("obj", PIDS[4], CONTENTS[2]), ("meta", PIDS[0], None, b"<sys/>"), ("meta", PIDS[0], "c", b"<c/>"),
            ("meta", PIDS[1], "c", b"<abc/>"), ("meta", PIDS[3], FORMATS[2], b"<other/>"),
            ("meta", PIDS[4], None, b""), ("meta", PIDS[0], "c\n", b"<c-newline/>"), ("meta", PIDS[1], " c", b"<space-c/>"),
            # an identifier that happens to be the path of an existing file (here: the first source file)
            ("obj", "<PATH-OF-SOURCE-0>", b"path-shaped pid"), ("meta", "<PATH-OF-SOURCE-0>", "c", b"<p/>"),
            # stored with its (correct) checksum under the store's own algorithm, spelled in upper case: the layout
            # uses the digest as the store computes it
            ("objck", "checked.1", b"validated content \r\n\x00")]


DV, WV, AV, NSV = z3.Int("depth"), z3.Int("width"), z3.Int("algo"), z3.Int("namespace")


def run_config(ps, M, shim, native_root=None, enc=None, diag=True):
    depth = ps.choose(DV, 1, 7)
    width = ps.choose(WV, 1, 5)
    algo = ALGOS[ps.choose(AV, 0, len(ALGOS))]
    # the namespace varies along a diagonal of the configuration space (it does not interact with the sharding)
    # (quick tier; the thorough tier takes the full product)
    ps.constrain(z3.And(NSV >= 0, NSV < len(NSLIST)))
    if diag:
        ps.constrain(NSV == (DV + WV + AV) % len(NSLIST))
    ns = NSLIST[ps.choose(NSV, 0, len(NSLIST))]
    script = script_for()
    if native_root is None:
        F = symfs.FS(symfs.ModelBackend())
        F.b.dirs["/src"] = True
        shim.fs = F
        root = "/s"
        put = lambda name, data: (F.b.create("/src/" + name, data), "/src/" + name)[1]
    else:
        F = None
        shutil.rmtree(native_root, ignore_errors=True)
        os.makedirs(native_root + "/src")
        root = native_root + "/s"

        def put(name, data):
            with open(native_root + "/src/" + name, "wb") as fh:
                fh.write(data)
            return native_root + "/src/" + name
    bad = []
    # the process's working directory holds files named like the digests of the contents about to be stored (a staging
    # area that keeps files under their checksum): they are not the store's objects
    for op in script:
        if op[0] in ("obj", "objck"):
            name = hashlib.new(D1ALGO[algo], op[2]).hexdigest()
            if F is not None:
                F.b.create("/" + name, b"not the object")
            else:
                with open(os.path.join(native_root, name), "wb") as fh:
                    fh.write(b"not the object")
    cwd0 = os.getcwd()
    if F is None:
        os.chdir(native_root)
    try:
        return _run_config_body(ps, M, shim, native_root, enc, depth, width, algo, ns, script, F, root, put, bad)
    finally:
        os.chdir(cwd0)


def _run_config_body(ps, M, shim, native_root, enc, depth, width, algo, ns, script, F, root, put, bad):
    src0 = put("o0", script[0][2])
    script = [tuple(src0 if x == "<PATH-OF-SOURCE-0>" else x for x in op) for op in script]
    d_arg, w_arg = depth, width
    if enc == "by-config":
        # depth and / or width supplied as integer-like strings for some configurations (the configuration file
        # records integers all the same)
        enc = ["int", "str", "str-depth", "str-width"][(depth + 2 * width + ALGOS.index(algo)) % 4]
    if enc == "str":
        d_arg, w_arg = str(depth), str(width)
    elif enc == "str-depth":
        d_arg = str(depth)
    elif enc == "str-width":
        w_arg = str(width)
    try:
        s = M.FileHashStore(dict(store_path=root, store_depth=d_arg, store_width=w_arg, store_algorithm=algo,
                                 store_metadata_namespace=ns))
    except symfs.Crash:
        raise
    except Exception as e:   # noqa
        return dict(depth=depth, width=width, algo=algo, files=0, ns=ns,
                    bad=[("store-creation-failed", "%s: %s" % (type(e).__name__, str(e)[:160].replace("\n", " ")))])
    for n, op in enumerate(script):
        try:
            if op[0] in ("obj", "objck"):
                if op[0] == "objck":
                    om = s.store_object(op[1], put("o%d" % n, op[2]), None,
                                        hashlib.new(D1ALGO[algo], op[2]).hexdigest().upper(), algo)
                else:
                    om = s.store_object(op[1], put("o%d" % n, op[2]))
                if om.cid != hashlib.new(D1ALGO[algo], op[2]).hexdigest():
                    bad.append(("cid-not-digest-under-store-algorithm", om.cid))
            else:
                s.store_metadata(op[1], put("m%d" % n, op[3]), op[2])
        except symfs.Crash:
            raise
        except Exception as e:   # noqa
            bad.append(("script-call-failed", "%s: %s" % (type(e).__name__, str(e)[:120])))
    if F is not None:
        tree = {k[len(root) + 1:]: v for k, v in F.b.snapshot(root + "/").items()}
    else:
        tree = {k[len("/s") + 1:]: v for k, v in symfs.RealBackend(native_root).snapshot("/s").items()}
    conf = tree.pop("hashstore.yaml", None)
    exp = expected_tree(depth, width, algo, ns, script)
    if tree != exp:
        extra = sorted(set(tree) - set(exp))[:3]
        missing = sorted(set(exp) - set(tree))[:3]
        diff = sorted(k for k in set(tree) & set(exp) if tree[k] != exp[k])[:3]
        bad.append(("tree-differs-from-published-layout", dict(unexpected=extra, missing=missing, content_differs=diff)))
    if conf is None:
        bad.append(("hashstore.yaml-missing", ""))
    else:
        try:
            y = yaml.safe_load(conf.decode("utf-8"))
        except Exception as e:   # noqa
            y = None
            bad.append(("hashstore.yaml-not-readable-as-yaml", type(e).__name__))
        want = dict(store_depth=depth, store_width=width, store_algorithm=algo, store_metadata_namespace=ns)
        for k, v in want.items():
            if not isinstance(y, dict) or y.get(k) != v or type(y.get(k)) is not type(v):
                bad.append(("hashstore.yaml-key-wrong", k, None if not isinstance(y, dict) else y.get(k)))
        if isinstance(y, dict) and y.get("store_default_algo_list") != ALGOS:
            bad.append(("hashstore.yaml-key-wrong", "store_default_algo_list", y.get("store_default_algo_list")))
    # the store opens again under the properties it was created with
    try:
        M.FileHashStore(dict(store_path=root, store_depth=depth, store_width=width, store_algorithm=algo,
                             store_metadata_namespace=ns))
    except symfs.Crash:
        raise
    except Exception as e:   # noqa
        bad.append(("reopening-with-the-creating-properties-refused", "%s: %s" % (type(e).__name__, str(e)[:120])))
    return dict(depth=depth, width=width, algo=algo, bad=bad, files=len(tree), ns=ns)


def e2(run, tier):
    """One loaded module per worker serves stores of all five algorithms in turn (as one process using several
    stores would), so state shared between instances is exercised as well."""
    def worker(d):
        M = loader.load("filehashstore.py")
        shim = symfs.Shim()
        shim.install(M)
        ps = PathSym([DV == d, WV >= 1, WV <= 4, AV >= 0, AV < len(ALGOS)])
        hist = []

        def one(p):
            r = run_config(p, M, shim, diag=tier != "thorough", enc="by-config")
            hist.append((r["depth"], r["width"], r["algo"], NSLIST.index(r["ns"])))
            r["history"] = list(hist)
            return r
        recs = ps.explore(one)
        return recs, ps.st.as_dict()
    outs = par_explore(worker, list(range(1, 7)))
    for recs, st in outs:
        run.add_stats(st)
        for r in recs:
            run.case(("tree", r["depth"], r["width"], r["algo"], r["ns"]), dict(depth=r["depth"], width=r["width"],
                                                                        algorithm=r["algo"], files=r["files"]))
            run.oblige(not r["bad"])
            run.reach["layout-ok" if not r["bad"] else "layout-differs"] += 1
            if r["bad"]:
                sig = "fixed script under a configuration :: " + "+".join(sorted(set(b[0] for b in r["bad"])))
                run.fail(sig, dict(config=(r["depth"], r["width"], r["algo"]), failing=r["bad"],
                                   stores_opened_before_in_this_process=r["history"][:-1][-6:]),
                         dict(harness="tree", depth=r["depth"], width=r["width"], algo=r["algo"], history=r["history"]))


def replay_tree(payload):
    """native: one unpatched module serves the same sequence of stores (each on a fresh scratch directory)"""
    MN = loader.load("filehashstore.py")
    import logging
    logging.disable(logging.CRITICAL)
    root = scratch_root()
    try:
        r = None
        for h in payload.get("history") or [(payload["depth"], payload["width"], payload["algo"])]:
            d, w_, a = h[:3]
            pins = [DV == d, WV == w_, AV == ALGOS.index(a)] + ([NSV == h[3]] if len(h) > 3 else [])
            r = PathSym(pins).explore(lambda p: run_config(p, MN, None, native_root=root, diag=len(h) <= 3,
                                                           enc="by-config"))[0]
        return bool(r["bad"]), ("native run (unpatched code, real file system) of the script under depth=%d width=%d %s "
                                "after %d earlier stores in the same process: %s" % (
                                    r["depth"], r["width"], r["algo"], len(payload.get("history") or [1]) - 1, r["bad"]))
    finally:
        shutil.rmtree(root, ignore_errors=True)


def kernels(tier):
    M = loader.load("filehashstore.py")
    sh = symfs.Shim(symfs.FS())
    sh.install(M)
    FHS = M.FileHashStore

    def mk(depth, width, algo="sha256"):
        s = FHS.__new__(FHS)
        s.depth, s.width, s.algorithm = depth, width, algo
        s.root = M.Path("/s")
        s.objects, s.metadata, s.refs = s.root / "objects", s.root / "metadata", s.root / "refs"
        s.cids, s.pids = s.refs / "cids", s.refs / "pids"
        s.default_algo_list = list(FIVE)
        s.fhs_logger = M.logging.getLogger("x")
        return s

    def shard_at(n):
        def shard_kernel(depth: int, width: int, digest: str):
            if not (1 <= depth <= 6 and 1 <= width <= 4 and len(digest) == n and depth * width < n):
                return "skip"
            t = mk(depth, width)._shard(digest)
            return "".join(t) == digest and len(t) == depth + 1 and all(len(x) == width for x in t[:depth])
        return shard_kernel

    def shard_upto(n):
        def shard_kernel(depth: int, width: int, digest: str):
            if not (1 <= depth <= 6 and 1 <= width <= 4 and depth * width < len(digest) <= n):
                return "skip"
            t = mk(depth, width)._shard(digest)
            return "".join(t) == digest and len(t) == depth + 1 and all(len(x) == width for x in t[:depth])
        return shard_kernel

    cids = [hashlib.sha256(c).hexdigest() for c in CONTENTS]

    def builders_kernel(depth: int, width: int, which: int):
        if not (1 <= depth <= 6 and 1 <= width <= 4 and 0 <= which < 3):
            return "skip"
        s = mk(depth, width)
        cid = cids[which]
        pid = PIDS[which + 1]
        ok = str(s._build_hashstore_data_object_path(cid)) == "/s/objects/" + "/".join(r_shard(cid, depth, width))
        ok = ok and str(s._get_hashstore_cid_refs_path(cid)) == "/s/refs/cids/" + "/".join(r_shard(cid, depth, width))
        ok = ok and str(s._get_hashstore_pid_refs_path(pid)) == "/s/refs/pids/" + "/".join(
            r_shard(r_H(pid, "SHA-256"), depth, width))
        return ok

    fl = loader.function_lines(M, ["FileHashStore._shard", "FileHashStore._build_hashstore_data_object_path",
                                   "FileHashStore._get_hashstore_cid_refs_path",
                                   "FileHashStore._get_hashstore_pid_refs_path", "FileHashStore._computehash"])
    ks = [xh.Kernel("shard_len%d" % n, shard_at(n), 120, 20, fl[:1],
                    "depth 1..6, width 1..4, symbolic digest string of length %d" % n) for n in (32, 40, 64, 96, 128)]
    ks.append(xh.Kernel("path_builders", builders_kernel, 120, 20, fl,
                        "depth 1..6, width 1..4, 3 concrete cids/pids; against the independent README layout"))
    if tier == "thorough":
        ks.append(xh.Kernel("shard_upto40", shard_upto(40), 400, 30, fl[:1],
                            "depth 1..6, width 1..4, every digest length with depth*width < len <= 40"))
    else:
        ks.append(xh.Kernel("shard_upto12", shard_upto(12), 120, 20, fl[:1],
                            "depth 1..6, width 1..4, every digest length with depth*width < len <= 12"))
    return ks


def main(tier, replay_payload=None):
    def replayer(payload):
        if payload.get("harness") == "xh":
            return xh.replay_kernel(kernels(tier), payload)
        return replay_tree(payload)
    if replay_payload is not None:
        return replayer(replay_payload)
    run = report.Run("C15", tier, technique="CrossHair on _shard/path builders (symbolic depth, width, digest) + pathsym "
                     "enumeration of configuration selectors with a whole-tree oracle (independent README layout)")
    run.replayer = replayer
    e2(run, tier)
    xh.run_kernels(run, "C15", kernels(tier))
    for f in loader.function_lines(loader.load(), ["FileHashStore.__init__", "FileHashStore._write_properties",
                                                   "FileHashStore._build_hashstore_yaml_string",
                                                   "FileHashStore.store_object", "FileHashStore.store_metadata",
                                                   "FileHashStore._put_metadata", "FileHashStore._write_refs_file",
                                                   "FileHashStore._update_refs_file"]):
        run.functions.append(f)
    run.bounds = dict(depth="1..6", width="1..4", algorithms=ALGOS, script=[str(o[:3]) for o in script_for()],
                      E1_digest_lengths=[32, 40, 64, 96, 128], pids=PIDS, namespaces=NSLIST)
    run.explanation = ("E1: for symbolic depth, width and digest string (each real digest length) CrossHair confirms "
                       "over all paths that _shard yields depth tokens of width characters plus the remainder whose "
                       "concatenation is the digest, and that the three path builders equal an independent "
                       "implementation of the README layout. E2: for every configuration chosen by the solver from depth "
                       "1-6 x width 1-4 x five algorithms the real constructor and a fixed script (pids sharing content, "
                       "non-ASCII pid, empty content, three formats) run over the environment model; the complete tree "
                       "(paths and contents) and the hashstore.yaml keys (read back with an independent YAML load) "
                       "equal the expected tree. The configuration selectors are finite: the solver's role in E2 is "
                       "exhaustive enumeration, not arithmetic.")
    run.outside = ["depth*width >= digest length (not a valid configuration)", "pids/contents outside the script"]
    run.need("all 120 configurations explored (x 6 namespaces in the thorough tier)",
             run.reach["layout-ok"] + run.reach["layout-differs"] == (720 if tier == "thorough" else 120))
    return run.finish()
