"""C02 - reported checksums are true and depend only on the call that asked."""
import hashlib
from props.common import *   # noqa
from props import spell
from engine import conc, symfs

MINE = {"returned-value", "instance-state", "history:results-depend-on-earlier-calls-on-the-instance", "result-class"}


def probe(w, s, algos):
    """a fixed follow-up history whose reported digests must not depend on what the instance did before"""
    pid = w.pids[0]
    out = []

    def rec(fn):
        try:
            out.append(("ok", conc.summ(fn())))
        except Exception as e:   # noqa
            out.append(("exc", type(e).__name__))
    rec(lambda: s.delete_object(pid))
    rec(lambda: s.store_object(pid, w.src(0)))
    for a in algos:
        rec(lambda: s.get_hex_digest(pid, a))
    rec(lambda: sorted(s.store_object(None, w.src(1)).hex_digests.items()))
    rec(lambda: s.delete_object(pid))
    rec(lambda: sorted(s.store_object(pid, w.src(1), "sha224").hex_digests.items()))
    rec(lambda: s.get_hex_digest(pid, algos[0]))
    return out


def fresh_instance_probe(w, s, algos):
    return step.fresh_instance_equivalence(w, s, lambda w_, s_: probe(w_, s_, algos))


PROBE_ALGOS = ["sha256", "MD5", "SHA-384", "sha3_256", "blake2b"]


class StoreAlgo(step.StoreObj):
    """store_object with additional / checksum algorithms, followed (after the post-state was abstracted) by a fixed
    probe history on the same instance and on a fresh one: reported key sets and digests must be identical."""

    def finally_(self, w, s, res):
        algos = [a for a in (self.add, self.calgo) if a and (self.add_canon or self.calgo_canon)] + PROBE_ALGOS
        return fresh_instance_probe(w, s, algos)


class HexDigestP(step.HexDigest):
    def finally_(self, w, s, res):
        return fresh_instance_probe(w, s, [self.algo] + PROBE_ALGOS)


def menu_for(tier):
    def menu_fn(w):
        m = []
        k = 1
        c = w.contents[k]
        for canon in ALGOS12:
            sps = spell.spellings(canon, tier)
            for nsp, sp in enumerate(sps):
                m.append((StoreAlgo if nsp == 0 or tier == "thorough" else step.StoreObj)(0, k, add=sp, add_canon=canon, tagname=", additional=%s" % sp,
                                   roles="store_object(pid, content, additional_algorithm)"))
                m.append((StoreAlgo if nsp == 0 or tier == "thorough" else step.StoreObj)(0, k, checksum=hashlib.new(canon, c).hexdigest(), calgo=sp, calgo_canon=canon,
                                   tagname=", checksum_algorithm=%s" % sp,
                                   roles="store_object(pid, content, checksum+algorithm)"))
                m.append((HexDigestP if nsp == 0 or tier == "thorough" else step.HexDigest)(0, sp, canon))
        # combinations of additional and checksum algorithm (canonical spellings), same and different
        for a in ALGOS12:
            for b in ALGOS12:
                if tier != "thorough" and not (a == b or ALGOS12.index(a) == (ALGOS12.index(b) + 5) % 12):
                    continue
                m.append(StoreAlgo(0, 0, add=a, add_canon=a, checksum=hashlib.new(b, w.contents[0]).hexdigest(),
                                   calgo=b, calgo_canon=b, tagname=", additional=%s, checksum_algorithm=%s" % (a, b),
                                   roles="store_object(pid, content, additional+checksum algorithms)"))
        # rejected calls also must not disturb the instance
        m.append(StoreAlgo(0, 0, add="sha999", tagname=", additional=sha999", roles="store_object(unsupported additional)"))
        m[-1].model = lambda w, pre: ([(z3.BoolVal(True), step.UNSUP)], w._copy(pre))
        m.append(StoreAlgo(0, 0, add="sha224", add_canon="sha224", size=len(w.contents[0]) + 1, invalid=True,
                           tagname=", additional=sha224, wrong size", roles="store_object(additional, wrong size)"))
        m.append(StoreAlgo(1, 0))
        # a later verdict call under another algorithm leaves what store_object reported as it was
        for canon in ("sha224", "blake2b"):
            ck = hashlib.new(canon, w.contents[0]).hexdigest()
            m.append(step.DeleteIfInvalid(0, ck, canon, len(w.contents[0]), False, ", correct, %s" % canon))
            m.append(step.DeleteIfInvalid(0, ("0" if ck[0] != "0" else "1") + ck[1:], canon, len(w.contents[0]), True,
                                          ", wrong checksum, %s" % canon))
        if w.NK > 2:
            # a multi-block content (> 64 KiB, not a multiple of any usual buffer size)
            for canon in ALGOS12:
                m.append(step.HexDigest(0, canon, canon))
                m[-1].needs = lambda w: w.bind[0] == 2
            m.append(step.StoreObj(0, 2, add="sha3_384", add_canon="sha3_384", tagname=", large content"))
        return m
    return menu_fn


import z3   # noqa: E402

CONC_ARGS = dict(pids=["a", "b"], contents=[C_ONE, C_MULTI], formats=[None], fake_cid=False)


def conc_scenarios(tier):
    """two store_object calls asking for different additional algorithms run concurrently on one instance; afterwards
    a plain sequential call on that instance reports exactly its own key set and true digests"""
    def after(w, s):
        bad = []
        for add in ("blake2b", "sha224", None):
            try:
                try:
                    s.delete_object(w.pids[0])
                except Exception:   # noqa
                    pass
                om = s.store_object(w.pids[0], w.src(1), add)
            except Exception as e:   # noqa
                bad.append(("C02:later-call-failed", type(e).__name__))
                continue
            want = set(FIVE) | ({add} if add else set())
            if set(om.hex_digests) != want:
                bad.append(("C02:key-set-of-a-later-call-depends-on-the-concurrent-calls",
                            "asked for %s, got %s" % (add, sorted(set(om.hex_digests) ^ want))))
            for a, h in om.hex_digests.items():
                if h != hashlib.new(a, w.contents[1]).hexdigest():
                    bad.append(("C02:reported-digest-wrong-after-concurrent-calls", a))
        return bad

    def fn(w):
        out = []
        for calls in ([step.StoreObj(0, 0, add="sha224", add_canon="sha224"), step.StoreObj(1, 1, add="blake2b", add_canon="blake2b")],
                      [step.StoreObj(0, 0, checksum=hashlib.sha3_256(w.contents[0]).hexdigest(), calgo="sha3_256", calgo_canon="sha3_256"),
                       step.StoreObj(1, 1, add="blake2s", add_canon="blake2s")]):
            out.append(("%s || then plain calls on the same instance || from: empty store" % " || ".join(
                "store_object(%s)" % (c.add or c.calgo) for c in calls), {}, calls, dict(after=after)))
        return out
    return fn


def main(tier, replay_payload=None):
    big = bytes((i * 7 + i // 251) % 256 for i in range(70001))
    # the first pid is spelled exactly like the content identifier of another content of the universe: the digests
    # reported for a pid are those of the object it is bound to, whatever the pid looks like
    w_args = dict(pids=[hashlib.sha256(C_MULTI).hexdigest(), "b"], contents=[C_ONE, C_MULTI, big], formats=[None],
                  sym_dirs=False, blksize=4096)
    menu_fn = menu_for(tier)
    from props import C02_xh
    kf = lambda: C02_xh.kernels(tier)
    def replayer(p):
        if p.get("harness") == "fault":
            from engine import fault
            f_args = dict(pids=["a", "b"], contents=[C_ONE, C_MULTI], formats=[None], sym_dirs=False, fake_cid=False)
            f_menu = lambda w: [step.StoreObj(i, k) for i in range(w.NP) for k in range(w.NK)] + [
                step.StoreObj(0, 1, add="sha3_256", add_canon="sha3_256", tagname=", additional=sha3_256")]
            return fault.replay_fault(f_args, f_menu, p["vals"], p["clauses"])
        if p.get("harness") == "sched":
            return conc.replay_schedule(CONC_ARGS, conc_scenarios(tier), p["k"], p["log"], p["bound"], p["clauses"][0])
        return make_replayer(w_args, menu_fn, kf)(p)
    if replay_payload is not None:
        return replayer(replay_payload)
    run = report.Run("C02", tier, technique="pathsym inductive step with the instance's algorithm list in Inv; "
                     "structured symbolic spellings (algorithm x case mask x separator) chosen by the solver")
    run.replayer = replayer
    res = step.explore_steps(w_args, menu_fn)
    collect(run, res, MINE, w_args, menu_fn)
    # a call that succeeds although one file-system operation failed on the way (a retry, a fall-back) still reports
    # true digests: the C13 fault exploration restricted to store_object, judged for the returned value
    from engine import fault
    from props import C13
    f_args = dict(pids=["a", "b"], contents=[C_ONE, C_MULTI], formats=[None], sym_dirs=False, fake_cid=False)
    f_menu = lambda w: [step.StoreObj(i, k) for i in range(w.NP) for k in range(w.NK)] + [
        step.StoreObj(0, 1, add="sha3_256", add_canon="sha3_256", tagname=", additional=sha3_256")]
    C13.fold(run, fault.explore_faults(f_args, f_menu, 1), "C02:")
    from props.C07 import fold as sched_fold
    sched_fold(run, conc.explore_scenarios(CONC_ARGS, conc_scenarios(tier), 2 if tier == "thorough" else 1), "C02:",
               2 if tier == "thorough" else 1)
    from engine import xh
    xh.run_kernels(run, "C02", C02_xh.kernels(tier))
    run.functions = loader.function_lines(loader.load(), API_FUNCS + [
        "FileHashStore._refine_algorithm_list", "FileHashStore._clean_algorithm", "FileHashStore._computehash",
        "FileHashStore._check_arg_algorithms_and_checksum", "FileHashStore._set_default_algorithms"])
    run.bounds = dict(algorithms=ALGOS12, spellings_per_algorithm={a: len(spell.spellings(a, tier)) for a in ALGOS12},
                      calls=res[0][2], contents=[1, 12], state="arbitrary Inv state; Inv includes: the instance's "
                      "default algorithm list is the five defaults (closed under every call => no history dependence)")
    run.explanation = ("For every accepted spelling (DataONE and hashlib canonical forms, case masks, '-'/'_' at the legal "
                       "joint) of each of the 12 algorithms, as additional_algorithm, as checksum_algorithm and in "
                       "get_hex_digest, from an arbitrary symbolic store state: hex_digests has exactly the five "
                       "defaults plus the requested algorithms, every value equals hashlib's digest of the content, "
                       "get_hex_digest equals the true digest. History independence is inductive: the per-instance "
                       "algorithm list is part of Inv and must be the five defaults again after every call (including "
                       "rejected ones); and a fixed follow-up history (delete, re-store other content, get_hex_digest under several spellings, plain store) must give identical results on the instance that served the call and on a fresh instance over a copy of the same store.")
    run.outside = ["spellings outside the template", "digests of large contents"]
    run.need("store with additional algorithm succeeded", run.reach["ok"] > 0)
    return run.finish()
