"""C06 - validation verdict is exactly 'size and checksum match the content'."""
import hashlib
from props.common import *   # noqa
from props import spell

MINE = {"instance-state", "result-class", "model:bind", "model:obj", "store-state:tmp-residue", "store-state:object-bytes-changed",
        "bookkeeping-not-exact", "referenced-object-removed", "returned-value", "store-state:delete-marker-residue"}


def variants(content, canon, tier, allpos=False):
    true = hashlib.new(canon, content).hexdigest()
    other = hashlib.new("sha3_256" if canon != "sha3_256" else "sha256", content).hexdigest()
    out = [("lower-case", true, True), ("upper-case", true.upper(), True),
           ("mixed-case", "".join(ch.upper() if i % 2 else ch for i, ch in enumerate(true)), True),
           ("digest of another algorithm", other, other.lower() == true),
           ("truncated", true[:-1], False),
           # characters that are neither hex digits nor whitespace do not disappear from a checksum
           ("byte-order mark in front", "\ufeff" + true, False),
           ("zero-width space inside", true[:7] + "\u200b" + true[7:], False),
           ("accented letter appended", true + "\u00e9", False)]
    positions = range(len(true)) if allpos else (0, len(true) // 2, len(true) - 1)
    for pos in positions:
        ch = "0" if true[pos] != "0" else "1"
        out.append(("hex digit %d changed" % pos if not allpos else "one hex digit changed",
                    true[:pos] + ch + true[pos + 1:], False))
    return out


def menu_for(tier, algos=None, ks=None):
    def menu_fn(w):
        m = []
        for k in (range(w.NK) if ks is None else ks):
            c = w.contents[k]
            n = len(c)
            for canon in (algos or ALGOS12):
                sps = spell.spellings(canon, tier) if tier == "thorough" else \
                    [spell.DATAONE.get(canon, spell.spellings(canon, "quick")[0]), canon]
                if tier == "thorough":
                    sps = sps[:4] + [canon]
                for nsp, sp in enumerate(sorted(set(sps))):
                    combos = []
                    # thorough: every hex position, for the canonical spelling on the multi-buffer content
                    allpos = tier == "thorough" and sp == canon and k == 1
                    for name, ck, okc in variants(c, canon, tier, allpos):
                        for sname, sz, oks in (("no size", None, True), ("true size", n, True)):
                            if sz == 0:
                                continue
                            combos.append((name + ", " + sname, ck, sz, okc and oks))
                    true = hashlib.new(canon, c).hexdigest()
                    for sname, sz in (("size+1", n + 1), ("size-1", n - 1)):
                        if sz < 1:
                            continue
                        combos.append(("lower-case, " + sname, true, sz, False))
                    for name, ck, sz, valid in combos:
                        tag = ", %s, %s" % (sp, name)
                        roles_v = "valid" if valid else "invalid"
                        m.append(step.StoreObj(0, k, checksum=ck, calgo=sp, size=sz, invalid=not valid, tagname=tag,
                                               calgo_canon=canon,
                                               roles="store_object(pid, content, %s: %s, %s)" % (
                                                   roles_v, name.split(" changed")[0], "default algorithm" if canon in FIVE else "non-default algorithm")))
                        m.append(step.DeleteIfInvalid(k, ck, sp, sz, not valid, tagname=tag))
                        m[-1].roles = "delete_if_invalid_object(%s: %s, %s)" % (
                            roles_v, name.split(" changed")[0], "default algorithm" if canon in FIVE else "non-default algorithm")
                # the checksum algorithm also given as additional algorithm (same text): the verdict is the same
                true = hashlib.new(canon, c).hexdigest()
                for name, ck, valid in (("correct", true, True), ("one hex digit changed", variants(c, canon, tier)[-1][1], False)):
                    m.append(step.StoreObj(0, k, add=canon, add_canon=canon, checksum=ck, calgo=canon, calgo_canon=canon,
                                           invalid=not valid, tagname=", %s given twice, %s" % (canon, name),
                                           roles="store_object(pid, content, %s: additional algorithm = checksum algorithm, %s)" % (
                                               "valid" if valid else "invalid", "default algorithm" if canon in FIVE else "non-default algorithm")))
            # size only; also through a reader whose `name` is another file of another size (the verdict is about
            # the bytes that were stored, not about whatever the argument is called)
            other = len(w.contents[(k + 1) % w.NK])
            blk = w.blksize
            for sname, sz, valid in (("true size", n, True), ("size+1", n + 1, False), ("size-1", n - 1, False),
                                     ("size of the file the reader is named after", other, other == n),
                                     # sizes at which a reader working block by block could stop early
                                     ("one read block", blk, blk == n), ("two read blocks", 2 * blk, 2 * blk == n),
                                     ("all complete read blocks", (n - 1) // blk * blk, False)):
                if sz >= n and not valid and sname not in ("size+1",):
                    continue
                if sz < 1:
                    continue
                for kind in ("path", "decoder"):
                    m.append(step.StoreObj(0, k, kind=kind, size=sz, invalid=not valid,
                                           tagname=", no checksum, %s%s" % (sname, "" if kind == "path" else ", reader"),
                                           roles="store_object(pid, content%s, %s: no checksum, %s)" % (
                                               "" if kind == "path" else " through a named reader",
                                               "valid" if valid else "invalid", sname)))
        return m
    return menu_fn


def main(tier, replay_payload=None):
    w_args = dict(pids=["a", "b"], contents=[C_ONE, C_MULTI] + ([b""] if tier == "thorough" else []),
                  formats=[None], sym_dirs=False, fake_cid=False)
    menu_fn = menu_for(tier)
    # a content of many buffers (4096-byte blocks): the verdict must be taken over all of it
    big_args = dict(pids=["a", "b"], contents=[C_ONE, big_bytes(70001)], formats=[None], sym_dirs=False, fake_cid=False,
                    blksize=4096)
    big_menu = menu_for("quick", ALGOS12 if tier == "thorough" else ["sha256", "md5", "sha224", "blake2b"], [1])
    parts = dict(main=(w_args, menu_fn), big=(big_args, big_menu))
    if replay_payload is not None:
        return make_multi_replayer(parts)(replay_payload)
    run = report.Run("C06", tier, technique="pathsym inductive step; verdict oracle (hashlib, casefold equality, integer "
                     "equality) vs the real validation path for every prior state of the content (symbolic)")
    run.replayer = make_multi_replayer(parts)
    res = step.explore_steps(w_args, menu_fn)
    collect(run, res, MINE, w_args, menu_fn)
    collect(run, step.explore_steps(big_args, big_menu), MINE, big_args, big_menu, part="big")
    run.functions = loader.function_lines(loader.load(), API_FUNCS + ["FileHashStore._check_integer"])
    run.bounds = dict(algorithms=ALGOS12, spellings="DataONE + hashlib canonical (quick); 5 structured spellings (thorough)",
                      checksum=["true digest lower/upper/mixed case", "digest of another algorithm", "truncated",
                                "one hex digit changed (3 positions quick / every position thorough)"],
                      size=["absent", "true", "true+1", "true-1"], entry_points=["store_object(pid,...)",
                                                                                 "delete_if_invalid_object"],
                      prior_state="symbolic: content absent / present unreferenced / present referenced; pid bound or not",
                      contents=[1, 12, "70001 (4096-byte blocks; 4 algorithms quick / 12 thorough)"], calls=res[0][2])
    run.explanation = ("Every (entry point, algorithm spelling, checksum variant, size variant) is executed from an "
                       "arbitrary symbolic state; the expected verdict comes from an independent oracle. z3 proves per "
                       "path: invalid => documented mismatch class, no pid bound, no new object (store_object) / object "
                       "removed iff unreferenced (delete_if_invalid_object), no temporary file; valid => nothing "
                       "rejected or deleted. Precondition of delete_if_invalid_object as documented: the descriptor "
                       "belongs to an object that is present.")
    run.outside = ["checksum strings not derived from a digest by the listed edits", "expected size 0 (argument error)"]
    run.need("mismatch verdict reached", run.reach["mismatch"] > 0)
    run.need("valid verdict reached", run.reach["ok"] > 0)
    return run.finish()
