"""C18 - identifiers are opaque: arbitrary pid / format strings never alias or escape.
E1: _check_string accepted => no line-breaking character (so a pid is one line of a list verbatim).
E2: inductive step with adversarial identifier alphabets sharing one object: frame of the bystanders by z3,
    containment of every created path on the trace of the environment model."""
from typing import Optional
from props.common import *   # noqa
from engine import xh, symfs

MINE = {"model:bind", "model:obj", "model:meta", "other-pid-references-changed", "bookkeeping-not-exact",
        "path-outside-store-or-not-hash-derived", "returned-value", "store-state:foreign-file",
        "store-state:dup-line", "store-state:foreign-line", "store-state:pid-ref-garbled",
        "store-state:metadata-garbled", "result-class", "round-trip:stored-object-not-retrievable",
        "round-trip:retrieved-bytes-differ-from-stored"}

LONG = "p" * 4999
SETS_QUICK = [
    (["../a", "a/b", "a"], [None, "../f", "f/g"]),
    (["-rf", "*", ".hidden"], [None, "-x", "-x\n"]),
    ([LONG + "q", LONG, "\U0001F600é"], [None, "中" * 3]),
    (["x", "X", "xx"], [None, "ns2", "NS"]),
]
SETS_QUICK.append((["urn:caf\u00e9.1", "urn:cafe\u0301.1", "\u212bx"], [None, "f\u00e9", "fe\u0301"]))   # Unicode normalisation forms
# identifiers spelled like the paths of existing files, two of which hold the same bytes (see args_for: the first
# content and the first metadata document of this universe are equal)
PATHLIKE = (["src/c0", "src/d0", "src/../src/c1"], [None, "src/d0"])
SETS_QUICK.append(PATHLIKE)
# identifiers spelled like names the store derives for *another* identifier: the digest of a pid (its reference file
# and metadata directory), the digest of pid + namespace (its default metadata document)
import hashlib as _hl
_P = "doi:10.5063/F1"
DERIVED = ([_P, _hl.sha256(_P.encode()).hexdigest(), _hl.sha256((_P + "ns").encode()).hexdigest()],
           [None, _hl.sha256(_P.encode()).hexdigest()])
SETS_QUICK.append(DERIVED)
# identifiers whose digests begin alike, in a shallow store (depth 1, width 1): they live in the same shard directories
NEIGHBOURS = (["p4", "p19", "\ufeffp4"], [None, "c"])
SETS_QUICK.append(NEIGHBOURS)
SETS_QUICK.append((["doi%3A10.5063%2FF1", "100%", "a%sb{0}"], [None, "%s", "%(x)s"]))     # template metacharacters
# identifiers so long that one object's reference list exceeds 1 MiB (thorough tier, object calls only)
HUGE = (["h" * 600000 + "q", "h" * 600000, "z"], [None])
SETS_THOROUGH = SETS_QUICK + [HUGE] + [
    (["a", "ab", "b", "ba"], [None, "c", "bc", "cb"]),
    (["/etc/passwd", "..", "."], [None, "/", ".."]),
    (["$(id)", "`id`", "a;b", "a|b"], [None, "%s", "{0}"]),
    (["\\", "a\\b", "'", "\""], [None, "\\n", "#"]),
    (["urn:uuid:1b35d0a5", "urn:uuid:1b35d0a5-b17a", "URN:UUID:1B35D0A5"], [None, "http://x/y#z", "http://x/y"]),
]


def menu_fn(w):
    if len(w.pids[0]) > 100000:
        return object_menu(w, with_invalid=False, with_reads=True)
    return object_menu(w, with_invalid=False, with_reads=True) + metadata_menu(w)


alias_native = step.alias_native


def kernels(tier):
    M = loader.load("filehashstore.py")
    sh = symfs.Shim(symfs.FS())
    M.logging, M.inspect = sh.logging, sh.inspect
    n = 4 if tier == "thorough" else 3
    # characters on which str.splitlines() splits, and characters str.strip() removes -- computed natively over all
    # code points (model validation; the deciding step is the symbolic lemma below)
    BREAKS = "".join(chr(c) for c in range(0x110000) if len(("a" + chr(c) + "b").splitlines()) > 1)
    STRIPS = "".join(chr(c) for c in range(0x110000) if (chr(c) + "a").strip() != chr(c) + "a")
    assert all(ch.isspace() for ch in BREAKS) and all(ch.isspace() for ch in STRIPS)

    def opaque_line(s: str):
        if len(s) > n:
            return "skip"
        try:
            M.FileHashStore._check_string(s, "pid")
        except ValueError:
            return True
        return len(s) > 0 and not any(c in BREAKS for c in s) and not any(c in STRIPS for c in s)

    fl = loader.function_lines(M, ["FileHashStore._check_string"])
    return [xh.Kernel("accepted_identifier_is_one_verbatim_line", opaque_line, 120, 15, fl,
                      "str, len <= %d, all of Unicode; %d line-breaking and %d strippable code points" % (
                          n, len(BREAKS), len(STRIPS)))]


def main(tier, replay_payload=None):
    sets = SETS_THOROUGH if tier == "thorough" else SETS_QUICK
    kf = lambda: kernels(tier)

    def args_for(n):
        pids, fmts = sets[n]
        a = dict(pids=pids, contents=[b"shared", C_MULTI], formats=fmts, sym_dirs=False)
        if sets[n] is NEIGHBOURS:
            a.update(depth=1, width=1)
        if sets[n] is PATHLIKE:
            a["docs"] = (b"shared", D_MULTI)
        return a

    def files_for(n):
        a = args_for(n)
        out = {"src/c%d" % k: c for k, c in enumerate(a["contents"])}
        out.update({"src/d%d" % v: d for v, d in enumerate(a.get("docs", (D_ONE, D_MULTI)))})
        return out

    def replayer(payload):
        if payload.get("harness") == "alias":
            return alias_native(payload["what"], files_for(payload.get("set", 0)))
        return make_replayer(args_for(payload.get("set", 0)), menu_fn, kf)(payload)
    if replay_payload is not None:
        return replayer(replay_payload)
    run = report.Run("C18", tier, technique="pathsym inductive step over adversarial identifier alphabets (frame by z3, "
                     "containment on the trace) + CrossHair lemma on _check_string")
    run.replayer = replayer
    ncalls = 0
    from engine.universe import Aliasing, World
    for n in range(len(sets)):
        w_args = args_for(n)
        try:
            World(**w_args)
        except Aliasing as e:
            run.oblige(False)
            run.fail("distinct identifiers are stored at the same address :: " + str(e.what[0][0][0]),
                     dict(aliasing=e.what), dict(harness="alias", set=n, what=e.what, clauses=["alias"]))
            continue
        res = step.explore_steps(w_args, menu_fn)
        ncalls += res[0][2]
        before = set(run.failures)
        collect(run, res, MINE, w_args, menu_fn)
        for sig in set(run.failures) - before:
            run.failures[sig]["payload"]["set"] = n
    # the default format is the store's own namespace, whatever other stores the process has opened
    two_stores(run, "C18", ["metadata", "first-store", "stored-object-not-retrievable", "call-failed", "other-pid-lost"])
    xh.run_kernels(run, "C18", kernels(tier))
    for f in loader.function_lines(loader.load(), API_FUNCS):
        if f not in run.functions:
            run.functions.append(f)
    run.bounds = dict(identifier_sets=[[p if len(p) < 40 else "%s...(%d chars)" % (p[:8], len(p)) for p in s[0]] for s in sets],
                      format_sets=[s[1] for s in sets], calls=ncalls, state="arbitrary Inv state, one object shared")
    run.explanation = ("For each adversarial alphabet (path separators, '..', leading dash/dot, glob and shell "
                       "metacharacters, 5000-character pids one a prefix of the other, case variants, non-BMP) every call "
                       "is executed from an arbitrary symbolic state: z3 proves that all cells of the other identifiers "
                       "(reference, list membership, metadata) are unchanged and the model equality; every path created "
                       "or modified on the trace lies under the store root at a hex-only location. E1: an accepted "
                       "identifier contains no line-breaking or strippable character, for all strings within the bound. "
                       "Identifiers are concrete (hashing is a C boundary); arbitrary Unicode is covered only by E1.")
    run.outside = ["identifier strings outside the alphabets (E2)", "strings longer than the E1 bound"]
    run.need("successful store reached", run.reach["ok"] > 0)
    return run.finish()
