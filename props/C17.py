"""C17 - rejected and read-only calls change nothing (E2 step over an invalid-value grammar + E1 lemmas on the
argument checkers)."""
import io
from props.common import *   # noqa

MINE = {"rejected-or-read-only-call-mutated", "result-class", "model:bind", "model:obj", "model:meta",
        "bookkeeping-not-exact", "store-state:tmp-residue", "store-state:foreign-file",
        "store-state:delete-marker-residue", "instance-state", "returned-value"}

V, T, U = "ValueError", "TypeError", "unsupported"
BADID = [(None, V), ("", V), (" ", V), ("a b", V), ("a\n", V), ("\t", V)]
BADSIZE = [(0, V), (-1, V), ("5", T), (1.5, T)]
BADALGO = [("sha999", U), ("md-5x", U), ("SHA-3-256", U), ("dou_algo", U)]


def baddata():
    return [(lambda: b"bytes", T, "bytes"), (lambda: 5, T, "int"), (lambda: ["x"], T, "list"),
            (lambda: io.StringIO("x"), T, "StringIO"), (lambda: " ", T, "blank str"),
            (lambda: "/nonexistent/file", V, "missing path")]


def menu_fn(w):
    m = []
    R = step.Raw

    def add(label, roles, fn, classes):
        m.append(R(label, roles, fn, classes))
    P = w.pids[0]
    Q = w.pids[-1]
    good = lambda w: w.src(0)
    cid0 = w.real_cids[0]
    for v, c in BADID:
        add("store_object(pid=%r)" % (v,), "store_object(bad pid)", lambda w, s, v=v: s.store_object(v, good(w)), [c]) if v is not None else None
        add("tag_object(pid=%r)" % (v,), "tag_object(bad pid)", lambda w, s, v=v: s.tag_object(v, cid0), [c])
        add("tag_object(cid=%r)" % (v,), "tag_object(bad cid)", lambda w, s, v=v: s.tag_object(Q, v), [c])
        add("store_metadata(pid=%r)" % (v,), "store_metadata(bad pid)", lambda w, s, v=v: s.store_metadata(v, w.docsrc(0)), [c])
        add("retrieve_object(%r)" % (v,), "retrieve_object(bad pid)", lambda w, s, v=v: s.retrieve_object(v), [c])
        add("retrieve_metadata(%r)" % (v,), "retrieve_metadata(bad pid)", lambda w, s, v=v: s.retrieve_metadata(v), [c])
        add("delete_object(%r)" % (v,), "delete_object(bad pid)", lambda w, s, v=v: s.delete_object(v), [c])
        add("delete_metadata(%r)" % (v,), "delete_metadata(bad pid)", lambda w, s, v=v: s.delete_metadata(v), [c])
        add("get_hex_digest(pid=%r)" % (v,), "get_hex_digest(bad pid)", lambda w, s, v=v: s.get_hex_digest(v, "md5"), [c])
        add("get_hex_digest(alg=%r)" % (v,), "get_hex_digest(bad algorithm)", lambda w, s, v=v: s.get_hex_digest(P, v), [c])
        add("store_object(checksum=%r, md5)" % (v,), "store_object(bad checksum)", lambda w, s, v=v: s.store_object(Q, good(w), None, v, "md5"), [c])
        add("store_object(checksum=abc, alg=%r)" % (v,), "store_object(bad checksum algorithm)", lambda w, s, v=v: s.store_object(Q, good(w), None, "abc", v), [c])
        add("delete_if_invalid_object(checksum=%r)" % (v,), "delete_if_invalid_object(bad checksum)", lambda w, s, v=v: s.delete_if_invalid_object(om(w), v, "md5", 5), [c])
        add("delete_if_invalid_object(alg=%r)" % (v,), "delete_if_invalid_object(bad algorithm)", lambda w, s, v=v: s.delete_if_invalid_object(om(w), "abc", v, 5), [c])
    for v, c in [(" ", V), ("\t", V), ("  \n", V)]:
        add("store_metadata(fmt=%r)" % v, "store_metadata(blank format)", lambda w, s, v=v: s.store_metadata(Q, w.docsrc(0), v), [c])
        add("retrieve_metadata(fmt=%r)" % v, "retrieve_metadata(blank format)", lambda w, s, v=v: s.retrieve_metadata(P, v), [c])
        add("delete_metadata(fmt=%r)" % v, "delete_metadata(blank format)", lambda w, s, v=v: s.delete_metadata(P, v), [c])
    for v, c in BADSIZE:
        add("store_object(size=%r)" % (v,), "store_object(bad size)", lambda w, s, v=v: s.store_object(Q, good(w), None, None, None, v), [c])
        add("delete_if_invalid_object(size=%r)" % (v,), "delete_if_invalid_object(bad size)", lambda w, s, v=v: s.delete_if_invalid_object(om(w), "x", "md5", v), [c])
    for mk, c, name in baddata():
        add("store_object(data=%s)" % name, "store_object(bad data)", lambda w, s, mk=mk: s.store_object(Q, mk()), [c])
        add("store_object(None, data=%s)" % name, "store_object(data only, bad data)", lambda w, s, mk=mk: s.store_object(None, mk()), [c])
        add("store_metadata(data=%s)" % name, "store_metadata(bad data)", lambda w, s, mk=mk: s.store_metadata(Q, mk()), [c])
    add("store_object(pid, data=None)", "store_object(bad data)", lambda w, s: s.store_object(Q, None), [T])
    add("store_object(None, None)", "store_object(bad data)", lambda w, s: s.store_object(None, None), [T, V])
    for v, c in BADALGO:
        add("store_object(additional=%r)" % v, "store_object(unsupported algorithm)", lambda w, s, v=v: s.store_object(Q, good(w), v), [c])
        add("store_object(checksum_algo=%r)" % v, "store_object(unsupported algorithm)", lambda w, s, v=v: s.store_object(Q, good(w), None, "abc", v), [c])
        add("get_hex_digest(alg=%r)" % v, "get_hex_digest(unsupported algorithm)", lambda w, s, v=v: s.get_hex_digest(P, v), [c])
        add("delete_if_invalid_object(alg=%r)" % v, "delete_if_invalid_object(unsupported algorithm)", lambda w, s, v=v: s.delete_if_invalid_object(om(w), "abc", v, 5), [c])
    add("store_object(checksum without algorithm)", "store_object(pairing)", lambda w, s: s.store_object(Q, good(w), None, "abc", None), [V])
    add("store_object(algorithm without checksum)", "store_object(pairing)", lambda w, s: s.store_object(Q, good(w), None, None, "md5"), [V])
    # the one bad parameter (a missing or blank checksum) next to every valid choice of the other algorithm arguments,
    # equal and different spellings included
    for a in (None, "md5", "sha224", "sha256", "SHA-256"):
        for ca in ("md5", "sha224", "sha256", "SHA-256"):
            for ck in (None, " "):
                if a is None and ck is None and ca == "md5":
                    continue
                add("store_object(additional=%r, checksum=%r, checksum_algorithm=%r)" % (a, ck, ca),
                    "store_object(pairing, additional algorithm given)",
                    lambda w, s, a=a, ca=ca, ck=ck: s.store_object(Q, good(w), a, ck, ca), [V])
    add("delete_if_invalid_object(meta=None)", "delete_if_invalid_object(bad descriptor)", lambda w, s: s.delete_if_invalid_object(None, "abc", "md5", 5), [V])
    add("delete_if_invalid_object(meta=dict)", "delete_if_invalid_object(bad descriptor)", lambda w, s: s.delete_if_invalid_object({}, "abc", "md5", 5), [V])
    # two bad parameters at a time: any of the two documented classes
    for v, c in BADID[:3]:
        for mk, c2, name in baddata()[:3]:
            add("store_object(pid=%r, data=%s)" % (v, name), "store_object(bad pid + bad data)", lambda w, s, v=v, mk=mk: s.store_object(v, mk()), [c, c2]) if v is not None else None
        for z, c2 in BADSIZE:
            add("store_object(pid=%r, size=%r)" % (v, z), "store_object(bad pid + bad size)", lambda w, s, v=v, z=z: s.store_object(v, good(w), None, None, None, z), [c, c2]) if v is not None else None
            add("delete_if_invalid_object(checksum=%r,size=%r)" % (v, z), "delete_if_invalid_object(bad checksum + bad size)", lambda w, s, v=v, z=z: s.delete_if_invalid_object(om(w), v, "md5", z), [c, c2])
        for a, c2 in BADALGO[:2]:
            add("store_object(pid=%r, additional=%r)" % (v, a), "store_object(bad pid + unsupported algorithm)", lambda w, s, v=v, a=a: s.store_object(v, good(w), a), [c, c2]) if v is not None else None
            add("get_hex_digest(pid=%r, alg=%r)" % (v, a), "get_hex_digest(bad pid + unsupported algorithm)", lambda w, s, v=v, a=a: s.get_hex_digest(v, a), [c, c2])
        for f in (" ", "\t"):
            add("store_metadata(pid=%r, fmt=%r)" % (v, f), "store_metadata(bad pid + blank format)", lambda w, s, v=v, f=f: s.store_metadata(v, w.docsrc(0), f), [c, V])
    for z, c in BADSIZE:
        for a, c2 in BADALGO[:2]:
            add("store_object(size=%r, additional=%r)" % (z, a), "store_object(bad size + unsupported algorithm)", lambda w, s, z=z, a=a: s.store_object(Q, good(w), a, None, None, z), [c, c2])
    m[:] = [x for x in m if x is not None]
    # read-only calls, successful or on an unknown pid / absent document (expected class from the reference model)
    for i in range(w.NP):
        d = step.Delete(i)          # unknown pid: rejected, nothing may change (bound pid: the ordinary delete)
        m.append(d)
        m.append(step.Retrieve(i))
        m.append(step.HexDigest(i, "SHA-1", "sha1"))
        for f in w.formats:
            m.append(step.RetrieveMeta(i, f))
    return m


# canonically equivalent spellings are different identifiers: a call on the one that was never stored is a call on an
# unknown pid, whatever is stored under the other
NORM_ARGS = dict(pids=["caf\u00e9", "cafe\u0301"], contents=[C_ONE, C_MULTI], formats=[None], sym_dirs=False)


def norm_menu(w):
    m = []
    for i in range(w.NP):
        m += [step.Delete(i), step.Retrieve(i), step.HexDigest(i, "SHA-1", "sha1"), step.RetrieveMeta(i, None),
              step.DeleteMeta(i, None, all_docs=True)]
    return m


# identifiers that contain the metacharacters of string templates: unknown-pid calls answer with the documented class
PCT_ARGS = dict(pids=["doi%3A10.5063%2FF1", "100%", "a%sb{0}"], contents=[C_ONE, C_MULTI], formats=[None, "%s"],
                sym_dirs=False)


def om(w):
    import hashlib
    c = w.contents[0]
    return w.module().ObjectMetadata("HashStoreNoPid", w.real_cids[0], len(c),
                                     {a: hashlib.new(a, c).hexdigest() for a in FIVE})


def main(tier, replay_payload=None):
    w_args = universe(tier)
    from props import C17_xh
    kf = lambda: C17_xh.kernels(tier)
    parts = dict(main=(w_args, menu_fn), norm=(NORM_ARGS, norm_menu), percent=(PCT_ARGS, norm_menu))
    if replay_payload is not None:
        return make_multi_replayer(parts, kf)(replay_payload)
    run = report.Run("C17", tier, technique="pathsym inductive step over an invalid-argument grammar (no mutating "
                     "operation in the trace, post = pre by z3) + CrossHair lemmas on the argument checkers")
    run.replayer = make_multi_replayer(parts, kf)
    res = step.explore_steps(w_args, menu_fn)
    collect(run, res, MINE, w_args, menu_fn)
    collect(run, step.explore_steps(NORM_ARGS, norm_menu), MINE | {"other-pid-references-changed"}, NORM_ARGS, norm_menu,
            part="norm")
    collect(run, step.explore_steps(PCT_ARGS, norm_menu), MINE, PCT_ARGS, norm_menu, part="percent")
    run.functions = loader.function_lines(loader.load(), API_FUNCS + [
        "FileHashStore._check_string", "FileHashStore._check_integer", "FileHashStore._check_arg_data",
        "FileHashStore._check_arg_algorithms_and_checksum", "FileHashStore._check_arg_format_id",
        "FileHashStore._clean_algorithm"])
    run.bounds = dict(grammar="None, '', ' ', 'a b', 'a\\n', '\\t' identifiers; sizes 0,-1,'5',1.5; data bytes/int/list/"
                      "StringIO/blank/missing path; unsupported algorithm names; checksum/algorithm pairing; blank "
                      "formats; one and two bad parameters at a time", calls=res[0][2],
                      state="arbitrary Inv state (empty and populated stores are instances)")
    C17_xh.lemmas(run, tier)
    run.explanation = ("Every rejected call of the grammar and every read-only call is executed from an arbitrary "
                       "symbolic Inv state: the documented exception class is raised, the trace of the environment model "
                       "contains no mutating operation (nothing was even transiently written) and z3 proves post = pre. "
                       "CrossHair lemmas extend the argument checkers to all strings/ints within the size bound.")
    run.outside = ["invalid values outside the grammar (E2 part)", "strings longer than the E1 bound"]
    run.need("ValueError rejection reached", run.reach["ValueError"] > 0)
    run.need("TypeError rejection reached", run.reach["TypeError"] > 0)
    run.need("UnsupportedAlgorithm rejection reached", run.reach["unsupported"] > 0)
    run.need("successful read-only call reached", run.reach["ok"] > 0)
    return run.finish()
