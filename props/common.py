"""Shared universes, menus and glue for the property checks."""
import hashlib
import os
import sys

HERE = os.path.dirname(os.path.dirname(os.path.abspath(__file__)))
if HERE not in sys.path:
    sys.path.insert(0, HERE)

from engine import step, report, loader   # noqa: E402
from engine.universe import FIVE, C_ONE, C_MULTI, D_ONE, D_MULTI, D_MULTI15, D_ONE_ALT          # noqa: E402

ALGOS12 = ["md5", "sha1", "sha256", "sha384", "sha512", "sha224", "sha3_224", "sha3_256", "sha3_384", "sha3_512",
           "blake2b", "blake2s"]

API_FUNCS = ["FileHashStore.store_object", "FileHashStore.tag_object", "FileHashStore.delete_object",
             "FileHashStore.delete_if_invalid_object", "FileHashStore.store_metadata",
             "FileHashStore.retrieve_object", "FileHashStore.retrieve_metadata", "FileHashStore.delete_metadata",
             "FileHashStore.get_hex_digest", "FileHashStore._find_object", "FileHashStore._store_and_validate_data",
             "FileHashStore._store_data_only", "FileHashStore._move_and_get_checksums",
             "FileHashStore._write_to_tmp_file_and_get_hex_digests", "FileHashStore._store_hashstore_refs_files",
             "FileHashStore._untag_object", "FileHashStore._put_metadata", "FileHashStore._update_refs_file",
             "FileHashStore._is_string_in_refs_file", "FileHashStore._verify_object_information",
             "FileHashStore._verify_hashstore_references", "FileHashStore._delete_object_only",
             "FileHashStore._delete", "Stream.__iter__", "Stream.close"]


# identifiers of the shared universe: one is a proper prefix of another, "b" is a suffix of it, pid+format coincides
# for (P_A, "bc") and (P_AB, "c"), and two of them are not ASCII (their length in bytes differs from their length in
# characters); P_UP is the upper-case spelling of P_A
P_A, P_AB, P_UP = "\u00e9", "\u00e9b", "\u00c9"


def universe(tier, formats=True, algorithm="SHA-256"):
    if tier == "thorough":
        a = dict(pids=[P_A, P_AB, "b", P_UP], contents=[C_ONE, C_MULTI, b"01234"],
                 formats=[None, "ns", "c", "bc", ""] if formats else [None], algorithm=algorithm)
    else:
        a = dict(pids=[P_A, P_AB, "b"], contents=[C_ONE, C_MULTI],
                 formats=[None, "ns", "c", "bc"] if formats else [None], algorithm=algorithm)
    return a


def object_menu(w, with_invalid=True, with_reads=True):
    m = []
    for i in range(w.NP):
        for k in range(w.NK):
            m.append(step.StoreObj(i, k))
    for k in range(w.NK):
        m.append(step.StoreData(k))
    for i in range(w.NP):
        for j in range(w.NC):
            m.append(step.Tag(i, j))
    for i in range(w.NP):
        m.append(step.Delete(i))
    if with_invalid:
        for k in range(w.NK):
            c = w.contents[k]
            good = hashlib.sha256(c).hexdigest()
            m.append(step.DeleteIfInvalid(k, good, "sha256", len(c) + 1, True, ", wrong size"))
            m.append(step.DeleteIfInvalid(k, good[:-1] + ("0" if good[-1] != "0" else "1"), "sha256", len(c), True,
                                          ", wrong checksum"))
            m.append(step.DeleteIfInvalid(k, good, "sha256", len(c), False, ", correct"))
            # an algorithm outside the store's default list: the digest is recomputed from the stored object
            g224 = hashlib.sha224(c).hexdigest()
            m.append(step.DeleteIfInvalid(k, g224, "SHA-224", len(c), False, ", correct, non-default algorithm"))
            m.append(step.DeleteIfInvalid(k, ("0" if g224[0] != "0" else "1") + g224[1:], "sha224", len(c), True,
                                          ", wrong checksum, non-default algorithm"))
        for i in range(w.NP):
            for k in range(w.NK):
                c = w.contents[k]
                m.append(step.StoreObj(i, k, size=len(c) + 1, invalid=True, tagname=", wrong size"))
                m.append(step.StoreObj(i, k, checksum="0" * 32, calgo="md5", invalid=True, tagname=", wrong checksum"))
    if with_reads:
        for i in range(w.NP):
            m.append(step.Retrieve(i))
            m.append(step.HexDigest(i, "SHA-256", "sha256"))
    return m


def metadata_menu(w):
    m = []
    for i in range(w.NP):
        for f in w.formats:
            for v in range(w.ND):
                m.append(step.StoreMeta(i, v, f))
            m.append(step.RetrieveMeta(i, f))
            if f is not None:
                m.append(step.DeleteMeta(i, f))
        m.append(step.DeleteMeta(i, None, all_docs=True))
    return m


def full_menu(w):
    return object_menu(w) + metadata_menu(w)


def signature(rec, clause):
    return "%s :: %s :: result=%s :: pre-state: %s" % (rec["roles"], clause, rec["res"], rec.get("relation"))


def collect(run, results, mine, w_args, menu_fn, ignore=(), part=None):
    """Fold explore_steps() output into a report.Run.  mine: set of clause names that belong to this property."""
    from engine import battery
    battery.validate(run)
    for recs, st, nmenu in results:
        if isinstance(recs, str) and recs == "ALIAS":
            run.oblige(False)
            run.fail("distinct identifiers are stored at the same address :: %s" % (st[0][0][0] if st and st[0] else "?",),
                     dict(aliasing=st), dict(harness="alias", what=st, clauses=["alias"]))
            continue
        if isinstance(recs, str) and recs == "LEARN":
            what, extra = st
            run.oblige(False)
            run.fail("a plain call on an empty store fails or leaves other files than it should :: %s%r :: %s" % (
                what["api"], tuple("..." if isinstance(a, str) and len(a) > 40 else a for a in what["args"]),
                what["outcome"].split(":")[0]), dict(call=what),
                dict(harness="learn", what=what, contents=[c.decode("latin1") for c in extra["contents"]],
                     clauses=["learn"], part=part))
            continue
        run.add_stats(st)
        for r in recs:
            run.reach[r["res"]] += 1
            run.case((r["roles"], r["res"], r["ntrace"]), dict(call=r["call"], result=r["res"], fs_ops=r["ntrace"]))
            run.obligations += r["nob"]
            failed = [b for b in r["bad"] if b[0] in mine]
            run.discharged += r["nob"] - min(len(failed), r["nob"])
            if failed:
                clauses = sorted(set(b[0] if len(b) < 2 or not isinstance(b[1], str) or not b[1]
                                     else "%s(%s)" % (b[0], b[1]) for b in failed))
                sig = signature(r, "+".join(clauses)) + ((" [universe: %s]" % part) if part else "")
                run.fail(sig, dict(call=r["call"], result=r["res"], error=r["err"], failing=r["bad"],
                                   pre_state=r.get("vals")),
                         dict(harness="step", vals=r.get("vals"), clauses=sorted(set(b[0] for b in failed)),
                              call=r["call"], part=part, expect_hang=r.get("expect_hang", False),
                              passthrough="locale" in r.get("env_asked", []) and not (r.get("vals") or {}).get(
                                  "env_locale_is_utf8", True)))


def make_replayer(w_args, menu_fn, kernels_fn=None):
    def replay(payload):
        if payload.get("harness") == "two-stores":
            return replay_two_stores(payload)
        if payload.get("harness") == "xh":
            from engine import xh
            return xh.replay_kernel(kernels_fn(), payload)
        if payload.get("harness") == "alias":
            return step.alias_native(payload["what"])
        if payload.get("harness") == "learn":
            return step.learn_native(payload["what"], [c.encode("latin1") for c in payload["contents"]])
        return step.replay_native(w_args, menu_fn, payload["vals"], payload["clauses"],
                                  mode="passthrough" if payload.get("passthrough") else "native")
    return replay


def make_multi_replayer(parts, kernels_fn=None):
    """parts: name -> (w_args, menu_fn); a payload names the part it came from (collect(..., part=name))"""
    def replay(payload):
        w_args, menu_fn = parts[payload.get("part") or "main"]
        return make_replayer(w_args, menu_fn, kernels_fn)(payload)
    return replay


def big_bytes(n, tail=b""):
    """n bytes of every value (CR, LF, NUL and non-UTF-8 sequences included) ending in `tail`"""
    return bytes((i * 7 + i // 251) % 256 for i in range(n - len(tail))) + tail


# ---------------------------------------------------------------------------------------- several stores, one process
STORE_ALGOS5 = ["MD5", "SHA-1", "SHA-256", "SHA-384", "SHA-512"]


def two_stores_script(M, M2, mk_root, put, algo_a, algo_b, decoy=None):
    """One process (module M) works with store X (algorithm A) and then with store Y (algorithm B) under the same
    identifier; afterwards another process (a fresh copy M2 of the module) opens Y.  Returns a list of failures."""
    pid, other = "doi:10.5063/shared-id", "doi:10.5063/other-id"
    c1, c2, c3 = b"first \r\n\x00 content", b"second \xe9 content", b"third content"
    bad = []

    def props(root, algo):
        # the two stores also differ in their default metadata namespace
        return dict(store_path=root, store_depth=3, store_width=2, store_algorithm=algo,
                    store_metadata_namespace="ns-" + root[-1])
    if decoy is not None:
        # the working directory holds files named like the digests of the contents (not the store's objects)
        for c_, a_ in ((c1, algo_a), (c2, algo_b), (c3, algo_a), (c3, algo_b)):
            decoy(hashlib.new(D1(a_), c_).hexdigest(), b"not the object")
    x = M.FileHashStore(props(mk_root("x"), algo_a))
    x.store_object(pid, put("c1", c1))
    x.store_metadata(pid, put("d1", b"<x/>"))
    for k in range(3):
        x.retrieve_object(pid).close()
    y = M.FileHashStore(props(mk_root("y"), algo_b))
    try:
        # the first store goes on being used after the second one was opened
        x.store_metadata(other, put("d3", b"<x2/>"))
        x.store_object(other, put("c3", c3))
        om = y.store_object(pid, put("c2", c2))
        if om.cid != hashlib.new(D1(algo_b), c2).hexdigest():
            bad.append(("second-store:cid-not-digest-under-its-algorithm", om.cid))
        y.store_metadata(pid, put("d2", b"<y/>"))
        y.store_object(other, put("c2", c2))
    except Exception as e:   # noqa
        bad.append(("second-store:call-failed", type(e).__name__))
        return bad
    # another process opens X and Y
    try:
        x2 = M2.FileHashStore(props(mk_root("x"), algo_a))
        for what, fn, want in (("metadata", lambda: x2.retrieve_metadata(other), b"<x2/>"),
                               ("metadata", lambda: x2.retrieve_metadata(pid), b"<x/>"),
                               ("object", lambda: x2.retrieve_object(other), c3)):
            st = fn()
            try:
                if st.read() != want:
                    bad.append(("later-process:first-store-%s-differs" % what, ""))
            finally:
                st.close()
    except Exception as e:   # noqa
        bad.append(("later-process:first-store-%s-not-retrievable" % what, type(e).__name__))
    y2 = M2.FileHashStore(props(mk_root("y"), algo_b))
    try:
        st = y2.retrieve_object(pid)
        try:
            if st.read() != c2:
                bad.append(("later-process:retrieved-bytes-differ-from-stored", ""))
        finally:
            st.close()
    except Exception as e:   # noqa
        bad.append(("later-process:stored-object-not-retrievable", type(e).__name__))
    try:
        st = y2.retrieve_metadata(pid)
        try:
            if st.read() != b"<y/>":
                bad.append(("later-process:metadata-differs", ""))
        finally:
            st.close()
    except Exception as e:   # noqa
        bad.append(("later-process:metadata-not-retrievable", type(e).__name__))
    try:
        y2.store_object(pid, put("c3", c3))
        bad.append(("later-process:bound-pid-accepted-again", ""))
    except Exception as e:   # noqa
        if type(e).__name__ not in ("HashStoreRefsAlreadyExists", "PidRefsAlreadyExistsError"):
            bad.append(("later-process:bound-pid-refused-with-another-error", type(e).__name__))
    try:
        y2.delete_object(pid)
        st = y2.retrieve_object(other)
        try:
            if st.read() != c2:
                bad.append(("later-process:other-pid-lost-its-object", ""))
        finally:
            st.close()
    except Exception as e:   # noqa
        bad.append(("later-process:delete-or-other-pid-failed", type(e).__name__))
    return bad


def D1(algo):
    from engine.universe import D1ALGO
    return D1ALGO[algo]


def two_stores(run, prop, mine_prefixes):
    """all ordered pairs of store algorithms, chosen by the solver; model file system; native replay"""
    import z3
    from engine import symfs
    from engine.pathsym import PathSym, par_explore
    AV, BV = z3.Int("algo_first_store"), z3.Int("algo_second_store")

    def worker(a):
        shim = symfs.Shim()
        ps = PathSym([AV == a, BV >= 0, BV < len(STORE_ALGOS5)])

        def one(p):
            # two fresh copies of the module per pair: "this process" and "another process"
            M, M2 = loader.load("filehashstore.py"), loader.load("filehashstore.py")
            shim.install(M)
            shim.install(M2)
            b = p.choose(BV, 0, len(STORE_ALGOS5))
            F = symfs.FS(symfs.ModelBackend())
            F.b.dirs["/src"] = True
            F.b.dirs["/tmp"] = True
            shim.fs = F
            put = lambda name, data: (F.b.create("/src/" + name, data), "/src/" + name)[1]
            try:
                bad = two_stores_script(M, M2, lambda n: "/st_" + n, put, STORE_ALGOS5[a], STORE_ALGOS5[b],
                                        decoy=lambda name, data: F.b.create("/" + name, data))
            except symfs.Crash:
                raise
            except Exception as e:   # noqa
                bad = [("first-store:call-failed", type(e).__name__ + ": " + str(e)[:80])]
            return dict(a=a, b=b, bad=bad)
        return ps.explore(one), ps.st.as_dict()
    for recs, st in par_explore(worker, list(range(len(STORE_ALGOS5)))):
        run.add_stats(st)
        for r in recs:
            mine = [x for x in r["bad"] if any(x[0].split(":", 1)[1].startswith(m) for m in mine_prefixes)]
            run.case(("two stores", r["a"], r["b"]), dict(first_store=STORE_ALGOS5[r["a"]], second_store=STORE_ALGOS5[r["b"]]))
            run.oblige(not mine)
            run.reach["two-stores-ok" if not r["bad"] else "two-stores-differ"] += 1
            if mine:
                run.fail("one process, store X (%s) then store Y (%s) under one identifier; another process opens Y :: %s" % (
                    "algorithm A", "algorithm B" if r["a"] != r["b"] else "same algorithm", "+".join(sorted(set(x[0] for x in mine)))),
                    dict(first=STORE_ALGOS5[r["a"]], second=STORE_ALGOS5[r["b"]], failing=r["bad"]),
                    dict(harness="two-stores", a=r["a"], b=r["b"], clauses=sorted(set(x[0] for x in mine))))


def replay_two_stores(payload):
    import logging
    import shutil
    from engine.universe import scratch_root
    logging.disable(logging.CRITICAL)
    MN, MN2 = loader.load("filehashstore.py"), loader.load("filehashstore.py")
    root = scratch_root()
    try:
        os.makedirs(root + "/src")

        def put(name, data):
            with open(root + "/src/" + name, "wb") as fh:
                fh.write(data)
            return root + "/src/" + name
        def decoy(name, data):
            with open(os.path.join(root, name), "wb") as fh:
                fh.write(data)
        cwd0 = os.getcwd()
        os.chdir(root)
        try:
            bad = two_stores_script(MN, MN2, lambda n: root + "/st_" + n, put, STORE_ALGOS5[payload["a"]],
                                    STORE_ALGOS5[payload["b"]], decoy=decoy)
        finally:
            os.chdir(cwd0)
        hit = [x for x in bad if x[0] in payload["clauses"]]
        return bool(hit), ("native run (two unpatched copies of the module standing for two processes, real file system): "
                           "first store %s, second store %s: %s" % (STORE_ALGOS5[payload["a"]], STORE_ALGOS5[payload["b"]], bad))
    finally:
        shutil.rmtree(root, ignore_errors=True)
