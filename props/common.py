"""Shared universes, menus and glue for the property checks."""
import hashlib
import os
import sys

HERE = os.path.dirname(os.path.dirname(os.path.abspath(__file__)))
if HERE not in sys.path:
    sys.path.insert(0, HERE)

from engine import step, report, loader   # noqa: E402
from engine.universe import FIVE, C_ONE, C_MULTI, D_ONE, D_MULTI, D_MULTI15, D_ONE_ALT          # noqa: E402

ALGOS12 = ["md5", "sha1", "sha256", "sha384", "sha512", "sha224", "sha3_224", "sha3_256", "sha3_384", "sha3_512",
           "blake2b", "blake2s"]

API_FUNCS = ["FileHashStore.store_object", "FileHashStore.tag_object", "FileHashStore.delete_object",
             "FileHashStore.delete_if_invalid_object", "FileHashStore.store_metadata",
             "FileHashStore.retrieve_object", "FileHashStore.retrieve_metadata", "FileHashStore.delete_metadata",
             "FileHashStore.get_hex_digest", "FileHashStore._find_object", "FileHashStore._store_and_validate_data",
             "FileHashStore._store_data_only", "FileHashStore._move_and_get_checksums",
             "FileHashStore._write_to_tmp_file_and_get_hex_digests", "FileHashStore._store_hashstore_refs_files",
             "FileHashStore._untag_object", "FileHashStore._put_metadata", "FileHashStore._update_refs_file",
             "FileHashStore._is_string_in_refs_file", "FileHashStore._verify_object_information",
             "FileHashStore._verify_hashstore_references", "FileHashStore._delete_object_only",
             "FileHashStore._delete", "Stream.__iter__", "Stream.close"]


# identifiers of the shared universe: one is a proper prefix of another, "b" is a suffix of it, pid+format coincides
# for (P_A, "bc") and (P_AB, "c"), and two of them are not ASCII (their length in bytes differs from their length in
# characters); P_UP is the upper-case spelling of P_A
P_A, P_AB, P_UP = "\u00e9", "\u00e9b", "\u00c9"


def universe(tier, formats=True, algorithm="SHA-256"):
    if tier == "thorough":
        a = dict(pids=[P_A, P_AB, "b", P_UP], contents=[C_ONE, C_MULTI, b"01234"],
                 formats=[None, "ns", "c", "bc", ""] if formats else [None], algorithm=algorithm)
    else:
        a = dict(pids=[P_A, P_AB, "b"], contents=[C_ONE, C_MULTI],
                 formats=[None, "ns", "c", "bc"] if formats else [None], algorithm=algorithm)
    return a


def object_menu(w, with_invalid=True, with_reads=True):
    m = []
    for i in range(w.NP):
        for k in range(w.NK):
            m.append(step.StoreObj(i, k))
    for k in range(w.NK):
        m.append(step.StoreData(k))
    for i in range(w.NP):
        for j in range(w.NC):
            m.append(step.Tag(i, j))
    for i in range(w.NP):
        m.append(step.Delete(i))
    if with_invalid:
        for k in range(w.NK):
            c = w.contents[k]
            good = hashlib.sha256(c).hexdigest()
            m.append(step.DeleteIfInvalid(k, good, "sha256", len(c) + 1, True, ", wrong size"))
            m.append(step.DeleteIfInvalid(k, good[:-1] + ("0" if good[-1] != "0" else "1"), "sha256", len(c), True,
                                          ", wrong checksum"))
            m.append(step.DeleteIfInvalid(k, good, "sha256", len(c), False, ", correct"))
            # an algorithm outside the store's default list: the digest is recomputed from the stored object
            g224 = hashlib.sha224(c).hexdigest()
            m.append(step.DeleteIfInvalid(k, g224, "SHA-224", len(c), False, ", correct, non-default algorithm"))
            m.append(step.DeleteIfInvalid(k, ("0" if g224[0] != "0" else "1") + g224[1:], "sha224", len(c), True,
                                          ", wrong checksum, non-default algorithm"))
        for i in range(w.NP):
            for k in range(w.NK):
                c = w.contents[k]
                m.append(step.StoreObj(i, k, size=len(c) + 1, invalid=True, tagname=", wrong size"))
                m.append(step.StoreObj(i, k, checksum="0" * 32, calgo="md5", invalid=True, tagname=", wrong checksum"))
    if with_reads:
        for i in range(w.NP):
            m.append(step.Retrieve(i))
            m.append(step.HexDigest(i, "SHA-256", "sha256"))
    return m


def metadata_menu(w):
    m = []
    for i in range(w.NP):
        for f in w.formats:
            for v in range(w.ND):
                m.append(step.StoreMeta(i, v, f))
            m.append(step.RetrieveMeta(i, f))
            if f is not None:
                m.append(step.DeleteMeta(i, f))
        m.append(step.DeleteMeta(i, None, all_docs=True))
    return m


def full_menu(w):
    return object_menu(w) + metadata_menu(w)


def signature(rec, clause):
    return "%s :: %s :: result=%s :: pre-state: %s" % (rec["roles"], clause, rec["res"], rec.get("relation"))


def collect(run, results, mine, w_args, menu_fn, ignore=(), part=None):
    """Fold explore_steps() output into a report.Run.  mine: set of clause names that belong to this property."""
    from engine import battery
    battery.validate(run)
    for recs, st, nmenu in results:
        if isinstance(recs, str) and recs == "ALIAS":
            run.oblige(False)
            run.fail("distinct identifiers are stored at the same address :: %s" % (st[0][0][0],),
                     dict(aliasing=st), dict(harness="alias", what=st, clauses=["alias"]))
            continue
        run.add_stats(st)
        for r in recs:
            run.reach[r["res"]] += 1
            run.case((r["roles"], r["res"], r["ntrace"]), dict(call=r["call"], result=r["res"], fs_ops=r["ntrace"]))
            run.obligations += r["nob"]
            failed = [b for b in r["bad"] if b[0] in mine]
            run.discharged += r["nob"] - min(len(failed), r["nob"])
            if failed:
                clauses = sorted(set(b[0] if len(b) < 2 or not isinstance(b[1], str) or not b[1]
                                     else "%s(%s)" % (b[0], b[1]) for b in failed))
                sig = signature(r, "+".join(clauses))
                run.fail(sig, dict(call=r["call"], result=r["res"], error=r["err"], failing=r["bad"],
                                   pre_state=r.get("vals")),
                         dict(harness="step", vals=r.get("vals"), clauses=sorted(set(b[0] for b in failed)),
                              call=r["call"], part=part, expect_hang=r.get("expect_hang", False)))


def make_replayer(w_args, menu_fn, kernels_fn=None):
    def replay(payload):
        if payload.get("harness") == "xh":
            from engine import xh
            return xh.replay_kernel(kernels_fn(), payload)
        if payload.get("harness") == "alias":
            return step.alias_native(payload["what"])
        return step.replay_native(w_args, menu_fn, payload["vals"], payload["clauses"])
    return replay


def make_multi_replayer(parts, kernels_fn=None):
    """parts: name -> (w_args, menu_fn); a payload names the part it came from (collect(..., part=name))"""
    def replay(payload):
        w_args, menu_fn = parts[payload.get("part") or "main"]
        return make_replayer(w_args, menu_fn, kernels_fn)(payload)
    return replay


def big_bytes(n, tail=b""):
    """n bytes of every value (CR, LF, NUL and non-UTF-8 sequences included) ending in `tail`"""
    return bytes((i * 7 + i // 251) % 256 for i in range(n - len(tail))) + tail
