"""C16 - multiprocessing mode behaves identically and excludes across processes.
(i)  sequential equivalence: the same (state, call) in both synchronisation modes inside one path, z3 validity of
     post_th = post_mp;  (ii) the C07 / C12 schedule scenarios re-run through the multiprocessing code paths
     (scheduler-aware model of multiprocessing.Lock/Condition/Manager().list()).
Not applicable part: real forked worker processes contending through OS-level multiprocessing primitives."""
import z3
from props.common import *   # noqa
from engine import conc, fault, symfs, crash
from engine.pathsym import PathSym, par_explore
from engine.universe import World
from props import C07, C12


def seq_args(tier):
    a = universe(tier)
    a.update(sym_dirs=False, threading_mod=fault.SEQ_THREADING, multiprocessing_mod=fault.SEQ_MULTIPROCESSING)
    return a


def both_modes(ps, wt, wm, menu_t, menu_m, with_fault=False):
    n = ps.choose(step.CALLV, 0, len(menu_t))
    out = []
    hits = []
    for w, menu in ((wt, menu_t), (wm, menu_m)):
        F = w.build(ps)
        s = w.store()
        call = menu[n]
        if call.needs is not None:
            ps.assume(call.needs(w))
        if with_fault:
            # the same I/O error (operation index = one symbolic variable) strikes the call in both modes
            hit = []
            hits.append(hit)

            def inj(idx, kind, path, hit=hit):
                if not hit and ps.decide(fault.FAULTV == idx):
                    hit.append((idx, kind, path))
                    raise OSError(5, "Input/output error (injected)", path)
            F.injector = inj
        try:
            val = conc.summ(call.run(w, s))
            res = "ok"
        except symfs.Crash:
            raise
        except Exception as e:   # noqa
            res, val = type(e).__name__, str(e)[:120]
        if with_fault:
            F.injector = None
            if not hit:
                ps.constrain(fault.FAULTV >= F.nops)
        post = w.post()
        out.append((res, val, post, w.instance_problems(s), call))
    (rt, vt, pt, it, call), (rm, vm, pm, im, _) = out
    bad = []
    if with_fault and bool(hits[0]) != bool(hits[1]):
        bad.append(("file-system-operations-differ-between-modes", (hits[0], hits[1])))
    if rt != rm:
        bad.append(("results-differ-between-modes", "threading=%s multiprocessing=%s %s" % (rt, rm, vm if rm != "ok" else "")))
    elif rt == "ok" and vt != vm and not isinstance(call, step.StoreMeta):
        bad.append(("returned-values-differ-between-modes", (vt, vm)))
    ok, _ = ps.valid(wt.state_eq(pt, pm))
    if not ok:
        bad.append(("final-states-differ-between-modes", ""))
    if [p[0] for p in pt["problems"]] != [p[0] for p in pm["problems"]]:
        bad.append(("store-problems-differ-between-modes", (pt["problems"][:2], pm["problems"][:2])))
    for p in im:
        bad.append(("multiprocessing-mode:" + p[0], p[1:]))
    rec = dict(call=call.label, roles=call.roles, rt=rt, rm=rm, bad=bad, n=n,
               fault=(hits[0][0][1], crash.addr_kind(hits[0][0][2])) if with_fault and hits[0] else None)
    if bad:
        rec["vals"] = ps.model_values(wt.statevars + [step.CALLV, step.OFFV] + ([fault.FAULTV] if with_fault else []))
        rec["relation"] = call.relation(wt, rec["vals"])
    return rec


def explore_seq(tier):
    a = seq_args(tier)

    def worker(idx):
        wt, wm = World(**a), World(mp=True, **a)
        mt, mm = full_menu(wt), full_menu(wm)
        ps = PathSym(wt.inv() + [z3.Or([step.CALLV == n for n in idx])])
        recs = ps.explore(lambda p: both_modes(p, wt, wm, mt, mm))
        return recs, ps.st.as_dict()
    n = len(full_menu(World(**a)))
    return par_explore(worker, [list(range(r, n, 16)) for r in range(16) if r < n])


def fault_args(tier):
    return dict(pids=[P_A, "b"], contents=[C_ONE, C_MULTI], formats=[None], sym_dirs=False,
                threading_mod=fault.SEQ_THREADING, multiprocessing_mod=fault.SEQ_MULTIPROCESSING)


def fault_menu(w):
    m = []
    for i in range(w.NP):
        for j in range(w.NC):
            m.append(step.Tag(i, j))
        for k in range(w.NK):
            m.append(step.StoreObj(i, k))
        m.append(step.Delete(i))
        m.append(step.StoreMeta(i, 0, None))
        m.append(step.DeleteMeta(i, None, all_docs=True))
    return m


def explore_seq_faults(tier):
    """the same call struck by the same I/O error in both modes: error handling (the revert of a failed tagging, the
    release of the identifiers) runs through the mode's own branches as well"""
    a = fault_args(tier)

    def worker(idx):
        wt, wm = World(**a), World(mp=True, **a)
        mt, mm = fault_menu(wt), fault_menu(wm)
        ps = PathSym(wt.inv() + [z3.Or([step.CALLV == n for n in idx]), fault.FAULTV >= 0])
        recs = ps.explore(lambda p: both_modes(p, wt, wm, mt, mm, with_fault=True))
        return recs, ps.st.as_dict()
    n = len(fault_menu(World(**a)))
    return par_explore(worker, [list(range(r, n, 16)) for r in range(16) if r < n])


def replay_seq_fault(tier, payload):
    a = dict(fault_args(tier), mode="passthrough")
    wt, wm = World(**a), World(mp=True, **a)
    try:
        pins = []
        for v in wt.statevars + [step.CALLV, step.OFFV, fault.FAULTV]:
            if str(v) in payload["vals"]:
                x = payload["vals"][str(v)]
                pins.append(v == (z3.BoolVal(x) if isinstance(x, bool) else z3.IntVal(x)))
        ps = PathSym(wt.inv() + pins)
        r = ps.explore(lambda p: both_modes(p, wt, wm, fault_menu(wt), fault_menu(wm), with_fault=True))[0]
        hit = [b for b in r["bad"] if b[0] in payload["clauses"]]
        return bool(hit), ("passthrough replay on the real file system (one store per mode built by the same history, "
                           "USE_MULTIPROCESSING=True for the second; EIO injected at file-system operation %s of the "
                           "call): %s -> threading=%s multiprocessing=%s; failing=%s" % (
                               payload["vals"].get("fault_at"), r["call"], r["rt"], r["rm"], r["bad"]))
    finally:
        wt.cleanup()
        wm.cleanup()


def replay_seq(tier, payload):
    a = dict(seq_args(tier), mode="native")
    a.pop("threading_mod")
    a.pop("multiprocessing_mod")
    wt, wm = World(**a), World(mp=True, **a)
    try:
        pins = []
        for v in wt.statevars + [step.CALLV, step.OFFV]:
            if str(v) in payload["vals"]:
                x = payload["vals"][str(v)]
                pins.append(v == (z3.BoolVal(x) if isinstance(x, bool) else z3.IntVal(x)))
        ps = PathSym(wt.inv() + pins)
        recs = ps.explore(lambda p: both_modes(p, wt, wm, full_menu(wt), full_menu(wm)))
        r = recs[0]
        hit = [b for b in r["bad"] if b[0] in payload["clauses"]]
        return bool(hit), ("native replay (unpatched code, real file system, real threading / multiprocessing "
                           "primitives, USE_MULTIPROCESSING=True for the second store): %s -> threading=%s "
                           "multiprocessing=%s; failing=%s" % (r["call"], r["rt"], r["rm"], r["bad"]))
    finally:
        wt.cleanup()
        wm.cleanup()


LOCK_LISTS = ["object_locked_pids", "object_locked_cids", "reference_locked_pids", "metadata_locked_docs"]


def shared_lock_state(M, mk_root, mp, setenv):
    """two store instances (different roots) created in one interpreter must not share their locked-identifier lists"""
    setenv(mp)
    a = M.FileHashStore(dict(store_path=mk_root("a"), store_depth=3, store_width=2, store_algorithm="SHA-256",
                             store_metadata_namespace="ns"))
    b = M.FileHashStore(dict(store_path=mk_root("b"), store_depth=3, store_width=2, store_algorithm="SHA-256",
                             store_metadata_namespace="ns"))
    setenv(False)
    bad = []
    for n in LOCK_LISTS:
        name = n + ("_mp" if mp else "_th")
        # the lists exist once the store is initialised: processes forked from the initialising one can only share
        # what was created before the fork
        if name not in vars(a):
            bad.append((name, "is not created when the store is initialised (every forked process would make its own)"))
            continue
        la, lb = getattr(a, name, None), getattr(b, name, None)
        if la is None or lb is None:
            bad.append((name, "missing"))
            continue
        la.append("probe-identifier")
        shared = "probe-identifier" in list(lb)
        la.remove("probe-identifier")
        if shared:
            bad.append((name, "an identifier locked through one store instance is locked in the other"))
        # ... nor may one instance keep two kinds of identifier in one list (a cid and a document name can be the
        # same string: an object whose bytes are pid + format)
        for n2 in LOCK_LISTS:
            if n2 <= n:
                continue
            l2 = getattr(a, n2 + ("_mp" if mp else "_th"), None)
            if l2 is None:
                continue
            la.append("probe-identifier")
            same = "probe-identifier" in list(l2)
            la.remove("probe-identifier")
            if same:
                bad.append((name, "and %s of one instance are the same list" % (n2 + ("_mp" if mp else "_th"))))
    return bad


def forked_child_shares_lists(MN, root, setenv):
    """native, real processes: an identifier locked by a process forked right after initialisation is seen locked by
    the initialising process (the lists are shared manager lists created before the fork)"""
    import os
    setenv(True)
    a = MN.FileHashStore(dict(store_path=root, store_depth=3, store_width=2, store_algorithm="SHA-256",
                              store_metadata_namespace="ns"))
    setenv(False)
    pid = os.fork()
    if pid == 0:
        try:
            for n in LOCK_LISTS:
                getattr(a, n + "_mp").append("locked-by-the-child")
        finally:
            os._exit(0)
    os.waitpid(pid, 0)
    bad = []
    for n in LOCK_LISTS:
        if "locked-by-the-child" not in list(getattr(a, n + "_mp")):
            bad.append((n + "_mp", "an identifier locked in a forked process is not seen locked by its parent"))
    return bad


def independence(run):
    from engine import fault as _f
    for mp in (False, True):
        M = loader.load("filehashstore.py")
        sh = symfs.Shim(symfs.FS(symfs.ModelBackend()))
        sh.install(M, dict(threading=_f.SEQ_THREADING, multiprocessing=_f.SEQ_MULTIPROCESSING))

        def setenv(on, sh=sh):
            if on:
                sh.fs.env["USE_MULTIPROCESSING"] = "True"
            else:
                sh.fs.env.pop("USE_MULTIPROCESSING", None)
        bad = shared_lock_state(M, lambda x: "/st_" + x, mp, setenv)
        run.oblige(not bad)
        run.case(("independent-instances", mp), dict(check="two store instances do not share lock state",
                                                     multiprocessing=mp, shared=bad))
        if bad:
            run.fail("two store instances in one interpreter share lock state :: %s mode :: %s" % (
                "multiprocessing" if mp else "threading", ",".join(b[0] for b in bad)),
                dict(shared=bad), dict(harness="independence", mp=mp, clauses=["independence"]))


def replay_independence(payload):
    import logging
    import os
    import shutil
    from engine.universe import scratch_root
    logging.disable(logging.CRITICAL)
    MN = loader.load("filehashstore.py")
    root = scratch_root()

    def setenv(on):
        if on:
            os.environ["USE_MULTIPROCESSING"] = "True"
        else:
            os.environ.pop("USE_MULTIPROCESSING", None)
    try:
        bad = shared_lock_state(MN, lambda x: root + "/st_" + x, bool(payload.get("mp")), setenv)
        if payload.get("mp"):
            bad += forked_child_shares_lists(MN, root + "/st_fork", setenv)
        return bool(bad), ("native run (unpatched code, real %s primitives): two FileHashStore instances on different "
                           "directories: %s" % ("multiprocessing" if payload.get("mp") else "threading", bad))
    finally:
        os.environ.pop("USE_MULTIPROCESSING", None)
        shutil.rmtree(root, ignore_errors=True)


def main(tier, replay_payload=None):
    bound = 1

    def replayer(p):
        if p.get("harness") == "c16seq":
            return replay_seq(tier, p)
        if p.get("harness") == "independence":
            return replay_independence(p)
        if p.get("harness") == "c16fault":
            return replay_seq_fault(tier, p)
        mod = C07 if p.get("family") == "C07" else C12
        fn = mod.claim_scenarios(tier) if p.get("claim") else mod.scenarios_for(tier)
        return conc.replay_schedule(mod.W_ARGS, fn, p["k"], p["log"], p["bound"], p["clauses"][0], mp=True)
    if replay_payload is not None:
        return replayer(replay_payload)
    run = report.Run("C16", tier, technique="pathsym relational step (both synchronisation modes in one path, z3 validity "
                     "of post_th = post_mp) + the C07/C12 schedule exploration through the multiprocessing code paths")
    run.replayer = replayer
    for recs, st in explore_seq(tier):
        run.add_stats(st)
        for r in recs:
            run.reach["seq:" + r["rm"]] += 1
            run.case(("seq", r["roles"], r["rt"], r["rm"]), dict(call=r["call"], threading=r["rt"],
                                                                  multiprocessing=r["rm"]))
            run.oblige(not r["bad"])
            if r["bad"]:
                cl = sorted(set(b[0] for b in r["bad"]))
                sig = "%s in both modes :: %s :: threading=%s multiprocessing=%s :: pre-state: %s" % (
                    r["roles"], "+".join(cl), r["rt"], r["rm"], r["relation"])
                run.fail(sig, dict(call=r["call"], failing=r["bad"], pre_state=r["vals"]),
                         dict(harness="c16seq", vals=r["vals"], clauses=cl))
    for recs, st in explore_seq_faults(tier):
        run.add_stats(st)
        for r in recs:
            run.reach["faulted:" + ("no fault" if not r["fault"] else r["rm"])] += 1
            run.case(("faulted", r["roles"], r["fault"], r["rt"], r["rm"]),
                     dict(call=r["call"], io_error_at=r["fault"], threading=r["rt"], multiprocessing=r["rm"]))
            run.oblige(not r["bad"])
            if r["bad"]:
                cl = sorted(set(b[0] for b in r["bad"]))
                sig = "%s in both modes, one I/O error at %s :: %s :: threading=%s multiprocessing=%s :: pre-state: %s" % (
                    r["roles"], r["fault"], "+".join(cl), r["rt"], r["rm"], r["relation"])
                run.fail(sig, dict(call=r["call"], failing=r["bad"], pre_state=r["vals"], io_error_at=r["fault"]),
                         dict(harness="c16fault", vals=r["vals"], clauses=cl))
    from engine import battery
    battery.validate(run)
    independence(run)
    for fam, mod in (("C07", C07), ("C12", C12)):
        outs = conc.explore_scenarios(mod.W_ARGS, mod.scenarios_for(tier), bound, mp=True)
        before = set(run.failures)
        for prefix in ("LIN:", "C08:"):
            C07.fold(run, [dict(o, stats=o["stats"] if prefix == "LIN:" else {}) for o in outs], prefix, bound)
        for sig in set(run.failures) - before:
            run.failures[sig]["payload"]["family"] = fam
        # claiming an identifier must be atomic in this mode too: one pair per locked list, two preemptions
        outs = conc.explore_scenarios(mod.W_ARGS, mod.claim_scenarios(tier), 2, mp=True)
        before = set(run.failures)
        for prefix in ("LIN:", "C08:"):
            C07.fold(run, [dict(o, stats=o["stats"] if prefix == "LIN:" else {}) for o in outs], prefix, 2)
        for sig in set(run.failures) - before:
            run.failures[sig]["payload"].update(family=fam, claim=True)
    run.functions = loader.function_lines(loader.load(), API_FUNCS + [
        "FileHashStore.__init__", "FileHashStore._synchronize_object_locked_pids",
        "FileHashStore._release_object_locked_pids", "FileHashStore._synchronize_object_locked_cids",
        "FileHashStore._release_object_locked_cids", "FileHashStore._synchronize_referenced_locked_pids",
        "FileHashStore._release_reference_locked_pids", "FileHashStore._check_object_locked_cids",
        "FileHashStore._check_reference_locked_pids"])
    run.bounds = dict(sequential="universe and menu of C05/C11, both modes in one path",
                      sequential_with_io_error="tag_object / store_object / delete_object / store_metadata / "
                      "delete_metadata on two pids, one EIO at a symbolic operation index, both modes in one path", schedules="C07 and C12 pair "
                      "scenarios, preemption bound 1, multiprocessing code paths on scheduler-aware model primitives",
                      mode_selector="os.getenv('USE_MULTIPROCESSING') in the environment model")
    run.explanation = ("(i) For every Inv state and every call of the C05/C11 menu the real method runs twice inside one "
                       "path -- on an instance initialised in threading mode and on one initialised with "
                       "USE_MULTIPROCESSING=True -- and z3 proves equal results and equal post-states. (ii) The C07 and "
                       "C12 interleavings are re-explored with the variable set, so the _mp copy of every synchronised "
                       "section is what executes, against scheduler-aware models of multiprocessing.Lock / Condition / "
                       "Manager().list() (mutual exclusion, FIFO-free notify, list proxy behaves as a list: assumed). "
                       "Real forked processes on OS-level primitives cannot be executed symbolically: not covered.")
    run.outside = ["real forked worker processes and a real Manager server (not applicable to this technique)",
                   "more preemptions than the bound"]
    run.assumptions = ["multiprocessing.Lock/Condition/Manager().list() behave like their threading counterparts "
                       "(mutual exclusion, notify wakes one arbitrary waiter, the list proxy behaves as a list)"]
    run.need("a call succeeded in multiprocessing mode", run.reach["seq:ok"] > 0)
    return run.finish()
