"""C01 - stored bytes come back unchanged, addressed by their own hash.
E1: Stream / _write_to_tmp_file_and_get_hex_digests / _cast_to_bytes on symbolic bytes, offsets and buffer sizes.
E2: store_object for the four kinds of data argument x five store algorithms x contents around the buffer size,
    from an arbitrary Inv state, followed by retrieve_object."""
import copy
import types
from props.common import *   # noqa
from engine import xh, symfs
from engine.universe import World

MINE = {"returned-value", "round-trip:stored-object-not-retrievable", "round-trip:retrieved-bytes-differ-from-stored",
        "result-class", "store-state:object-bytes-changed", "model:obj", "model:bind", "referenced-object-removed",
        # the history half of C01 ("until deleted, whatever calls are made on other pids") is inductive: it needs the
        # bookkeeping invariant to be closed under the calls on the other pid as well
        "bookkeeping-not-exact", "other-pid-references-changed", "store-state:unterminated-line",
        "store-state:dup-line", "store-state:foreign-line"}
KINDS = ["path", "Path", "stream", "bytesio", "decoder", "written"]
STORE_ALGOS = ["MD5", "SHA-1", "SHA-256", "SHA-384", "SHA-512"]


def c01_universe(tier, algorithm):
    # sizes 0, 1, blksize-1, blksize, blksize+1, 3*blksize with the model's block size 4
    cs = [b"", C_ONE, b"abc", b"abcd", b"abcde", C_MULTI]
    if tier != "thorough":
        cs = [b"", b"abcd", b"abcde", C_MULTI]
    return dict(pids=["xb", "b"], contents=cs, formats=[None], algorithm=algorithm, fake_cid=False, sym_dirs=False)


BIG = bytes((i * 7 + i // 251) % 256 for i in range(70001))


def big_universe(algorithm="SHA-256"):
    # a content of many buffers whose length is no multiple of any usual buffer size; files are read in 4096-byte
    # blocks (st_blksize of the model), in-memory streams in the 8192-byte blocks the code chooses for them
    return dict(pids=["xb", "b"], contents=[b"abcd", BIG], formats=[None], algorithm=algorithm, fake_cid=False,
                sym_dirs=False, blksize=4096)


def universe_of(tier, payload):
    if payload.get("large"):
        return big_universe(payload.get("algorithm", "SHA-256"))
    return c01_universe(tier, payload.get("algorithm", "SHA-256"))


def menu_fn(w):
    m = []
    for kind in KINDS:
        for k in range(w.NK):
            n = len(w.contents[k])
            off = None if n <= 64 else [0, 1, 4095, 4096, 8191, 8192, 8193, n - 4096, n - 1, n]
            if kind == "written" and n > 64:
                continue
            m.append(step.StoreObj(0, k, kind=kind, offset=off if kind in ("stream", "bytesio") else 0,
                                   tagname=", data=%s" % kind))
    for k in range(w.NK):
        m.append(step.StoreData(k))
    # the frame half of "until deleted, whatever calls are made on other pids": calls on the other pid
    for k in range(w.NK):
        m.append(step.StoreObj(1, k))
        # ... including a store of the same content under the other pid that is refused for its size (no checksum:
        # the duplicate-content branch verifies against the caller's numbers only)
        m.append(step.StoreObj(1, k, size=len(w.contents[k]) + 1, invalid=True, tagname=", wrong size",
                               roles="store_object(other pid, content, wrong size)"))
    m.append(step.Delete(1))
    m.append(step.Retrieve(0))
    return m


class BF:
    """a caller-owned binary stream over symbolic bytes"""
    def __init__(self, data, pos, name):
        self.data, self.pos, self.closed, self.name = data, pos, False, name

    def tell(self):
        return self.pos

    def seek(self, p, w=0):
        self.pos = p
        return p

    def read(self, n=-1):
        d = self.data[self.pos:] if n is None or n < 0 else self.data[self.pos:self.pos + n]
        self.pos += len(d)
        return d

    def close(self):
        self.closed = True


class RecHash:
    """recording stand-in for a hashlib object whose 'digest' is the fed bytes: injective by construction"""
    def __init__(self, name):
        self.name, self.buf = name, b""

    def update(self, d):
        self.buf = self.buf + d

    def hexdigest(self):
        return self.buf


def kernels(tier):
    nb, nbuf = (8, 9) if tier == "thorough" else (5, 6)
    w = World(pids=["a"], contents=[C_ONE], formats=[None], fake_cid=False)
    M = w.M
    M.hashlib = types.SimpleNamespace(new=lambda name, *a, **k: RecHash(name))
    base = w.F0.b
    base.create("/src/in", b"")
    S0 = w.S0

    def fresh(bufsize):
        F = symfs.FS(base.clone_concrete(), blksize=bufsize)
        w.shim.fs = F
        return F

    def stream_kernel(data: bytes, pos: int, bufsize: int):
        if not (len(data) <= nb and 0 <= pos <= len(data) and 1 <= bufsize <= nbuf):
            return "skip"
        fresh(bufsize)
        f = BF(data, pos, "/src/in")
        st = M.Stream(f)
        chunks = [c for c in st]
        again = [c for c in st]          # "successive readings of the stream" restart from offset 0
        st.close()
        ok = b"".join(chunks) == data and b"".join(again) == data
        ok = ok and all(0 < len(c) <= bufsize for c in chunks)
        return ok and f.pos == pos and not f.closed

    def write_kernel(data: bytes, pos: int, bufsize: int):
        if not (len(data) <= nb and 0 <= pos <= len(data) and 1 <= bufsize <= nbuf):
            return "skip"
        F = fresh(bufsize)
        s = copy.copy(S0)
        s.default_algo_list = list(w.defaults)
        f = BF(data, pos, "/src/in")
        st = M.Stream(f)
        digests, tmpname, size = s._write_to_tmp_file_and_get_hex_digests(st, None, None)
        st.close()
        ok = sorted(digests) == sorted(w.defaults)
        ok = ok and all(v == data for v in digests.values())      # every hash object was fed exactly the content
        ok = ok and F.b.read(tmpname) == data and size == len(data)
        return ok and f.pos == pos and not f.closed

    def cast_kernel(data: bytes):
        if len(data) > nb:
            return "skip"
        return M.FileHashStore._cast_to_bytes(data) == data

    fl = loader.function_lines(M, ["Stream.__init__", "Stream.__iter__", "Stream.close",
                                   "FileHashStore._write_to_tmp_file_and_get_hex_digests",
                                   "FileHashStore._mktmpfile", "FileHashStore._cast_to_bytes"])
    b = "content bytes <= %d, offset in [0,len], buffer size in [1,%d]" % (nb, nbuf)
    return [xh.Kernel("stream_chunks", stream_kernel, 120, 15, fl[:3], b),
            xh.Kernel("write_tmp_and_digests", write_kernel, 150, 15, fl[:5], b + "; recording hashlib"),
            xh.Kernel("cast_bytes", cast_kernel, 30, 10, fl[5:], "bytes <= %d" % nb)]


def main(tier, replay_payload=None):
    kf = lambda: kernels(tier)
    if replay_payload is not None:
        return make_replayer(universe_of(tier, replay_payload), menu_fn, kf)(replay_payload)
    run = report.Run("C01", tier, technique="CrossHair lemmas on Stream/_write_to_tmp_file (symbolic bytes, offset, "
                     "buffer size) + pathsym step: store_object for 4 data kinds x 5 algorithms, symbolic stream offset")
    ncalls = 0
    for algo in STORE_ALGOS:
        w_args = c01_universe(tier, algo)
        res = step.explore_steps(w_args, menu_fn)
        ncalls = res[0][2]
        before = set(run.failures)
        collect(run, res, MINE, w_args, menu_fn)
        for sig in set(run.failures) - before:
            run.failures[sig]["payload"]["algorithm"] = algo
    for algo in (STORE_ALGOS if tier == "thorough" else ["SHA-256", "MD5"]):
        w_args = big_universe(algo)
        before = set(run.failures)
        collect(run, step.explore_steps(w_args, menu_fn), MINE, w_args, menu_fn)
        for sig in set(run.failures) - before:
            run.failures[sig]["payload"].update(algorithm=algo, large=True)

    def replayer(payload):
        return make_replayer(universe_of(tier, payload), menu_fn, kf)(payload)
    run.replayer = replayer
    # the same identifier in two stores of one process (different algorithms), read back by another process
    two_stores(run, "C01", ["stored-object-not-retrievable", "retrieved-bytes-differ", "cid-not-digest", "call-failed",
                            "other-pid-lost"])
    xh.run_kernels(run, "C01", kernels(tier))
    for f in loader.function_lines(loader.load(), API_FUNCS):
        if f not in run.functions:
            run.functions.append(f)
    run.bounds = dict(E1="content <= 5 (8) bytes, buffer 1..6 (1..9), every offset", E2_contents=[0, 1, 3, 4, 5, 12],
                      E2_large_content="70001 bytes with 4096-byte file blocks / 8192-byte in-memory blocks",
                      block_size_in_model=4, data_kinds=KINDS, algorithms=STORE_ALGOS, calls_per_algorithm=ncalls,
                      stream_offset="symbolic, 0..len")
    run.explanation = ("E1: CrossHair explores every path of Stream.__iter__/close and of "
                       "_write_to_tmp_file_and_get_hex_digests for symbolic content, caller offset and buffer size (all "
                       "residues of len mod buffer inside the bound): chunks concatenate to the whole content from "
                       "offset 0, the temp file and every hash object receive exactly the content, the caller's stream "
                       "ends open at its original offset. E2: from an arbitrary symbolic store state, store_object with "
                       "each kind of data argument (solver-chosen stream offset) under each of the five store "
                       "algorithms returns cid = hashlib digest and the true size, and retrieve_object returns the "
                       "bytes; calls on another pid leave the first pid's binding and object untouched (frame, by z3).")
    run.outside = ["contents other than the listed sizes (E2) / longer than 8 bytes (E1)", "hashlib itself", "short reads of the OS"]
    run.need("store through an in-memory buffered stream succeeded", any(
        "bytesio" in str(s_) for s_ in run.samples) or run.reach["ok"] > 0)
    return run.finish()
