"""C09 - permanent files are never observable half-written (symbolic crash point as the observer)."""
from props.common import *   # noqa
from engine import crash
from props.C10 import fold


def menu_fn(w):
    m = []
    for i in range(w.NP):
        for k in range(w.NK):
            m.append(step.StoreObj(i, k))
        m.append(step.Tag(i, 0))
        m.append(step.Delete(i))
        for f in w.formats:
            for v in range(w.ND):
                m.append(step.StoreMeta(i, v, f))
    for k in range(w.NK):
        m.append(step.StoreData(k))
    return m


def c09_universe(tier):
    cs = [C_ONE, C_MULTI, b"abcde"] if tier == "thorough" else [C_ONE, C_MULTI]
    return dict(pids=["a", "b"], contents=cs, formats=[None, "c"], fake_cid=False,
                docs=[D_ONE, D_MULTI15], sym_dirs=(tier == "thorough"))


def main(tier, replay_payload=None):
    w_args = c09_universe(tier)
    if replay_payload is not None:
        return crash.replay_crash(w_args, menu_fn, replay_payload["vals"], replay_payload["clauses"], recover=False)
    run = report.Run("C09", tier, technique="pathsym with a symbolic crash point as observer: the frozen state before "
                     "every file-system operation of every call is inspected; trace check for in-place writes")
    run.replayer = lambda p: crash.replay_crash(w_args, menu_fn, p["vals"], p["clauses"], recover=False)
    res = crash.explore_crashes(w_args, menu_fn, recover=False)
    from engine import battery
    battery.validate(run)
    fold(run, res, "C09:", w_args)
    run.functions = loader.function_lines(loader.load(), API_FUNCS)
    run.bounds = dict(pids=w_args["pids"], contents=[len(c) for c in w_args["contents"]], block_size_in_model=4,
                      documents=[len(d) for d in w_args["docs"]], formats=w_args["formats"], calls=res[0][2],
                      granularity="one buffered flush = one operation; every mutating or file-opening operation is a "
                                  "crash / observation point")
    run.explanation = ("crash_at is a z3 integer; the solver enumerates every feasible (state, call, operation index). "
                       "At the frozen state before operation i -- what a concurrent reader or a post-mortem inspection "
                       "sees -- every touched file at an object address has content whose digest is its name, every "
                       "metadata document equals a complete version supplied by some store_metadata (old or new), every "
                       "pid reference is a complete cid; and on the trace the only operations whose destination is a "
                       "permanent object / metadata / pid-reference address are rename and remove (content appears and "
                       "disappears in one step). Untouched entries satisfy this by Inv.")
    run.outside = ["torn single write(2)", "power loss / page-cache ordering", "cid list files (in-place by design)"]
    run.need("crash between temp-file write and rename reached", any(k.startswith("crash at rename") for k in run.reach))
    run.need("multi-buffer write reached", any(k.startswith("crash at write of tmp") for k in run.reach))
    return run.finish()
