"""E1 lemma for C02: _clean_algorithm maps every case mask x separator choice of a supported name to its hashlib
name (symbolic mask and separator selector; the spelling is built from them inside the kernel)."""
from engine import xh, loader, symfs
from props import spell


def kernels(tier):
    M = loader.load("filehashstore.py")
    sh = symfs.Shim(symfs.FS())
    M.logging, M.inspect = sh.logging, sh.inspect
    FHS = M.FileHashStore
    obj = FHS.__new__(FHS)
    obj.default_algo_list = ["md5", "sha1", "sha256", "sha384", "sha512"]
    obj.fhs_logger = M.logging.getLogger("x")
    ks = []

    def mk(canon):
        head, tail, empty_ok = spell.PARTS[canon]
        seps = [""] if empty_ok is None else (["-", "_", ""] if empty_ok else ["-", "_"])
        letters = [i for i, ch in enumerate(head) if ch.isalpha()]
        nl = len(letters)

        def kernel(mask: int, sep: int):
            if not (0 <= mask < 2 ** nl and 0 <= sep < len(seps)):
                return "skip"
            chars = list(head)
            for bit, pos in enumerate(letters):
                if (mask >> bit) & 1:
                    chars[pos] = chars[pos].upper()
            spelled = "".join(chars) + ((seps[sep] + tail) if tail else "")
            return obj._clean_algorithm(spelled) == canon
        return kernel, 2 ** nl * len(seps)
    fl = loader.function_lines(M, ["FileHashStore._clean_algorithm"])
    for canon in spell.PARTS:
        k, n = mk(canon)
        ks.append(xh.Kernel("clean_algorithm[%s]" % canon, k, 120, 10, fl,
                            "symbolic case mask over the letters x separator selector: %d spellings" % n))
    return ks
