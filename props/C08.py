"""C08 - calls always terminate and never leave an identifier locked.
Schedules: the C07 / C12 explorations plus mixed pairs contending on the lock shared by the reference-pid and metadata
conditions; per execution: no deadlock, every thread finishes within the step budget, all four locked-identifier
lists empty at quiescence, follow-up calls on the identifiers complete.  Faults: the C13 exploration asserts the same
after every faulted call."""
import itertools
from props.common import *   # noqa
from engine import conc, fault
from props import C07, C12, C13
from props.C10 import menu_fn as fault_menu

MIX_ARGS = dict(pids=["a", "b"], contents=[C_ONE], formats=[None, "c"], fake_cid=False)
MIX_INITS = [("empty store", {}), ("a bound to X with a document", {"bind_0": 0, "obj_0": True, "meta_0_0": 0})]


def mixed_for(tier):
    def fn(w):
        def menu():
            return [step.Tag(1, 0), step.StoreObj(1, 0), step.Delete(0), step.StoreMeta(0, 1, None),
                    step.StoreMeta(1, 0, "c"), step.DeleteMeta(0, None, all_docs=True), step.RetrieveMeta(0, None)]
        out = []
        for a, b in [(0, 3), (0, 4), (1, 3), (1, 5), (2, 3), (2, 4), (2, 5), (0, 5), (1, 4), (2, 6)]:
            for iname, init in MIX_INITS:
                calls = [menu()[a], menu()[b]]
                out.append(("%s || from: %s" % (" || ".join(c.label for c in calls), iname), init, calls))
        return out
    return fn


faulted_for = C13.faulted_for


def two_instances_for(tier):
    """the calls of a pair go through two store instances of one process opened on the same store: nothing excludes
    them from one another, but each must still return and leave no identifier locked in either instance"""
    def fn(w):
        pairs = [([step.StoreObj(0, 0), step.StoreObj(1, 0)], MIX_INITS[0]),
                 ([step.Delete(0), step.StoreObj(1, 0)], ("a bound to X", {"bind_0": 0, "obj_0": True})),
                 ([step.StoreMeta(0, 0, None), step.StoreMeta(0, 1, None)], MIX_INITS[1]),
                 ([step.Tag(1, 0), step.Delete(0)], ("a bound to X", {"bind_0": 0, "obj_0": True})),
                 ([step.StoreObj(0, 0), step.StoreObj(0, 0)], MIX_INITS[0]),
                 ([step.Delete(0), step.DeleteMeta(0, None, all_docs=True)], MIX_INITS[1])]
        out = []
        for calls, (iname, init) in pairs[:(6 if tier == "thorough" else 3)]:
            out.append(("%s || through two store instances || from: %s" % (" || ".join(c.label for c in calls), iname),
                        init, calls, dict(instances=2)))
        # while a call is under way, the process sets USE_MULTIPROCESSING (and leaves it set) and opens the store once
        # more in that mode, as the README shows: the mode of the running instance was fixed when it was initialised

        def open_other(w, s):
            w.shim.fs.env["USE_MULTIPROCESSING"] = "True"
            w.M.FileHashStore(w.props("/s"))
        opener = step.Raw("open the store once more in multiprocessing mode", "FileHashStore(...) in the other mode",
                          open_other, ["ok"])
        for call, (iname, init) in ((step.StoreObj(0, 0), MIX_INITS[0]), (step.Delete(0), MIX_INITS[1]),
                                    (step.StoreMeta(0, 1, None), MIX_INITS[1])):
            out.append(("%s || %s || from: %s" % (call.label, opener.label, iname), init, [call, opener]))
        return out
    return fn


# identifiers the text codec cannot encode (what os.listdir / os.fsdecode return for a file name that is not UTF-8):
# whatever the call answers, it returns and leaves nothing locked
ODD_ARGS = dict(pids=["a", "b"], contents=[C_ONE], formats=[None], fake_cid=False, sym_dirs=False,
                threading_mod=fault.SEQ_THREADING, multiprocessing_mod=fault.SEQ_MULTIPROCESSING)
ODD_MINE = {"instance-state", "call-does-not-return"}


def odd_menu(w):
    R = step.Raw
    odd = "caf\udce9.xml"
    good = w.pids[1]
    calls = [("store_object(pid)", lambda w, s: s.store_object(odd, w.src(0))),
             ("tag_object(pid)", lambda w, s: s.tag_object(odd, w.real_cids[0])),
             ("tag_object(cid)", lambda w, s: s.tag_object(good, odd)),
             ("store_metadata(pid)", lambda w, s: s.store_metadata(odd, w.docsrc(0))),
             ("store_metadata(format)", lambda w, s: s.store_metadata(good, w.docsrc(0), odd)),
             ("retrieve_object", lambda w, s: s.retrieve_object(odd)),
             ("retrieve_metadata", lambda w, s: s.retrieve_metadata(odd)),
             ("delete_object", lambda w, s: s.delete_object(odd)),
             ("delete_metadata", lambda w, s: s.delete_metadata(odd)),
             ("delete_metadata(format)", lambda w, s: s.delete_metadata(good, odd)),
             ("get_hex_digest", lambda w, s: s.get_hex_digest(odd, "md5")),
             ("store_object(checksum)", lambda w, s: s.store_object(good, w.src(0), None, odd, "md5"))]
    m = []
    for name, fn in calls:
        m.append(R("%s with an identifier that cannot be encoded" % name, name + " (unencodable identifier)", fn,
                   ["ValueError", "ok", "exists", "mismatch", "nopid"]))
        # ... and right afterwards an ordinary call on the same instance must not block
        m.append(step.After(m[-1], step.StoreObj(1, 0)))
    return m


def main(tier, replay_payload=None):
    bound = 2 if tier == "thorough" else 1
    def subset(fn, keep):
        # quick tier: lock behaviour hardly depends on the starting state; half of the states of each family
        if tier == "thorough":
            return fn
        return lambda w: [sc for sc in fn(w) if any(sc[0].endswith("from: " + k) for k in keep)]
    fams = {"C07": (C07.W_ARGS, subset(C07.scenarios_for(tier), ["empty store", "a and b share X", C07.WAKE_INIT[0]])),
            "C12": (C12.W_ARGS, subset(C12.scenarios_for(tier), ["no document", "a bound to X, document (a,c) present",
                                                                 "document (a,c) present"])),
            "mixed": (MIX_ARGS, mixed_for(tier)), "two-instances": (MIX_ARGS, two_instances_for(tier))}
    f_args = C13.c13_universe(tier)

    def replayer(p):
        if p.get("harness") == "step":
            return make_replayer(ODD_ARGS, odd_menu)(p)
        if p.get("harness") == "fault":
            return fault.replay_fault(f_args, fault_menu, p["vals"], p["clauses"], obstruct=True)
        if p.get("family") == "faulted":
            return conc.replay_schedule(MIX_ARGS, faulted_for(tier), p["k"], p["log"], p["bound"], p["clauses"][0],
                                        fault_at=p.get("fault_at"))
        a, fn = fams[p["family"]]
        return conc.replay_schedule(a, fn, p["k"], p["log"], p["bound"], p["clauses"][0])
    if replay_payload is not None:
        return replayer(replay_payload)
    run = report.Run("C08", tier, technique="pathsym: symbolic schedule vector (deadlock = alive but none enabled, decided "
                     "per explored interleaving) and symbolic fault point; lock lists and follow-up calls checked")
    run.replayer = replayer
    for fam, (a, fn) in fams.items():
        outs = conc.explore_scenarios(a, fn, bound)
        before = set(run.failures)
        C07.fold(run, outs, "C08:", bound)
        for sig in set(run.failures) - before:
            run.failures[sig]["payload"]["family"] = fam
    from engine import battery
    battery.validate(run)
    outs = conc.explore_scenarios(MIX_ARGS, faulted_for(tier), 1, with_fault=True)
    before = set(run.failures)
    C07.fold(run, outs, "C08:", 1)
    for sig in set(run.failures) - before:
        run.failures[sig]["payload"]["family"] = "faulted"
    collect(run, step.explore_steps(ODD_ARGS, odd_menu), ODD_MINE, ODD_ARGS, odd_menu)
    res = fault.explore_faults(f_args, fault_menu, 1, obstruct=True)
    C13.fold(run, res, "C08:")
    run.functions = loader.function_lines(loader.load(), API_FUNCS + [
        "FileHashStore._synchronize_object_locked_pids", "FileHashStore._release_object_locked_pids",
        "FileHashStore._synchronize_object_locked_cids", "FileHashStore._release_object_locked_cids",
        "FileHashStore._synchronize_referenced_locked_pids", "FileHashStore._release_reference_locked_pids"])
    run.bounds = dict(schedules="C07 and C12 pair scenarios (quick: from half of the starting states; thorough: all) + "
                                "20 mixed pairs + 3 (6) pairs whose calls go through two store instances of one "
                                "process (termination and lock lists only), preemption bound %d" % bound,
                      faults="every single call of the C13 menu with one injected I/O error (once / persistent) or, at "
                             "a mkdir, a regular file sitting where the directory is wanted; "
                             "2 (4) contending pairs at preemption bound 1 with one I/O error at a symbolic operation",
                      step_budget=4000)
    run.explanation = ("Deadlock is decided by the explored interleavings themselves: an execution in which some thread is "
                       "alive and none is enabled is a deadlock (locks are modelled by object identity, so the "
                       "reference-pid condition built on the metadata lock is what contends). After every execution: "
                       "all four locked-identifier lists are empty and store_metadata / delete_object / store_object / "
                       "delete_metadata on every identifier involved complete without waiting. The same is asserted "
                       "after every call that failed part-way with an injected I/O error (fault_at, sticky symbolic).")
    run.outside = ["more preemptions than the bound", "more than two threads (thorough: three in C07/C12)",
                   "termination of hashlib / the OS"]
    run.need("schedules explored", run.reach["schedules"] > 0)
    run.need("a faulted call reported an error", run.reach["faulted call -> error"] > 0)
    return run.finish()
